package main

import (
	"fmt"
	"go/ast"
	"go/constant"
	"go/token"
	"go/types"
	"regexp"
	"strconv"
	"strings"

	"golang.org/x/tools/go/ssa"
)

func init() {
	register(&propertyDef{
		ID: "C18",
		Explanation: "Decides the rendering structure: Value.String is FormatFloat(v,'f',-1,64) (shortest round-trip), Timestamp.String formats the UTC time with the fixed layout; a point line carries (archive index, point time, point value) over all archives and points; view prints exactly the PointsList of what readWhisperFile returned, the header under the ShowHeader flag; TimeSeries.Points maps slot i to from+i*step with the i-th value; " +
			"view-raw reads numberOfPoints slots from the archive's offset in pointSize steps, filters every archive with the caller's unchanged (from, until), sorts stably only under the flag. " +
			"Not decided: the time-range filter's boundary operators, inclusion relations between view and view-raw.",
		Run: rulesC18,
	})
	register(&propertyDef{
		ID: "C19",
		Explanation: "Decides agreement of printers and parsers: the (letter, multiplier) pairs printed by Duration.String (each under an exact-divisibility test with the same constant, larger units first) are exactly those unitMultiplier accepts {s:1,m:60,h:3600,d:86400,w:604800,y:31536000} (abstract evaluation over all 256 bytes); all timestamp printing/parsing uses the one UTC layout and ParseTimestamp rejects nothing but time.Parse errors; list/element separators printed are the runes the parsers split on; the generated method-name tables are mutually consistent; " +
			"the digit loop of leadingInt and the multiplication in ParseDuration are overflow-guarded inside the loop / before the multiplication; ParseArchiveInfo rejects non-positive and non-multiple retentions. " +
			"Not decided: exactness of the overflow bounds (value clause), the exhaustive 2^31/2^32 round-trip laws.",
		Run: rulesC19,
	})
	register(&propertyDef{
		ID: "C20",
		Explanation: "Decides the structure of generate: Create's default open flag contains O_CREATE|O_EXCL and generate passes no option overriding it; Create receives the command's Dest, ArchiveInfoList, AggregationMethod, XFilesFactor; the random fill and its write happen only under the Fill flag, with one list per archive from randomPointsList(ArchiveInfoList, rnd, RandMax, now, now); every success path passes a checked Sync (C05.R7); every generated value is rnd.Intn(max+1) or the sum helper's result (non-negative by construction), times are Truncate-aligned. " +
			"Not decided: the value bounds scaled by the step and the sum-consistency of coarser slots (value clauses).",
		Run: rulesC20,
	})
}

func callArgExprs(w *World, c ssa.CallInstruction) []string {
	ex := newExprCtx(w)
	var out []string
	for _, a := range c.Common().Args {
		out = append(out, ex.expr(a))
	}
	return out
}

func singleCall(f *ssa.Function, pred func(c *ssa.Call) bool) (*ssa.Call, int) {
	var found *ssa.Call
	n := 0
	for _, c := range callsIn(f) {
		if cv, ok := c.(*ssa.Call); ok && pred(cv) {
			found = cv
			n++
		}
	}
	return found, n
}

// ---------- C18 ----------

func rulesC18(w *World, r *Report) {
	r.Rule("C18.R1", "constants: Value.String = strconv.FormatFloat(float64(v), 'f', -1, 64); Timestamp.String = ToStdTime().Format(UTCTimeLayout) with ToStdTime = time.Unix(int64(t),0).UTC() and UTCTimeLayout = \"2006-01-02T15:04:05Z\"", 3)
	ruleHeaderStringFields(w, r, "C18.R1")
	if vs := need(w, r, "C18.R1", w.Lib, "Value.String"); vs != nil {
		c, n := singleCall(vs, func(c *ssa.Call) bool { return isCallToPkgFunc(c, "strconv", "FormatFloat") })
		ok := n == 1 && strings.Join(callArgExprs(w, c), ",") == "p0,102,-1,64"
		if ok {
			rets := returnsOf(vs)
			ok = len(rets) == 1 && rets[0].Results[0] == ssa.Value(c)
		}
		got := ""
		if c != nil {
			got = strings.Join(callArgExprs(w, c), ",")
		}
		r.Check(ok, "C18.R1", "Value.String", w.pos(vs.Pos()), "shortest round-trip decimal rendering", "Value.String is not FormatFloat(float64(v), 'f', -1, 64) (got arguments "+got+"): printed values no longer equal the stored ones")
	}
	if ts := need(w, r, "C18.R1", w.Lib, "Timestamp.String"); ts != nil {
		c, n := singleCall(ts, func(c *ssa.Call) bool { return isMethodCall(c, "time", "Time", "Format") })
		ok := n == 1 && strings.Join(callArgExprs(w, c), ",") == `whispertool.Timestamp.ToStdTime(p0),"2006-01-02T15:04:05Z"`
		r.Check(ok, "C18.R1", "Timestamp.String", w.pos(ts.Pos()), "UTC time in the fixed layout", "Timestamp.String does not format ToStdTime() with the layout 2006-01-02T15:04:05Z")
	}
	ruleToStdTimeUTC(w, r, "C18.R1")

	r.Rule("C18.R2", "derives-from: PointsList.Print writes one line per point carrying (archive index, p.Time, p.Value) in that order, ranging over all archives and all points", 2)
	if pr := need(w, r, "C18.R2", w.Cmd, "PointsList.Print"); pr != nil {
		c, n := singleCall(pr, func(c *ssa.Call) bool { return isCallToPkgFunc(c, "fmt", "Fprintf") })
		ok := n == 1
		got := ""
		if ok {
			ex := newExprCtx(w)
			var es []string
			for _, v := range variadicArgs(c.Common().Args[2]) {
				es = append(es, ex.expr(v))
			}
			got = strings.Join(es, " ; ")
			ok = regexp.MustCompile(`^\((i\d+) \+ 1\) ; p0\[\((i\d+) \+ 1\)\]\[\((i\d+) \+ 1\)\]\.Time ; p0\[\((i\d+) \+ 1\)\]\[\((i\d+) \+ 1\)\]\.Value$`).MatchString(got)
			if ok {
				m := regexp.MustCompile(`i\d+`).FindAllString(got, -1)
				ok = m[0] == m[1] && m[1] == m[3] && m[2] == m[4] && m[0] != m[2]
			}
			fs, _ := constString(c.Common().Args[1])
			ok = ok && strings.Count(fs, "%") == 3 && strings.HasSuffix(fs, "\n") && ex.expr(c.Common().Args[0]) == "p1"
		}
		r.Check(ok, "C18.R2", "PointsList.Print:line", w.pos(pr.Pos()), "line = (archive, time, value) of every point", "a printed line does not carry (archive index, point time, point value) of each point of each archive: "+got)
		// loops start at the first element
		full := 0
		eachInstr(pr, func(in ssa.Instruction) {
			if ph, ok := in.(*ssa.Phi); ok && isIntType(ph.Type()) && loopFromTo(ph, -1) {
				full++
			}
		})
		r.Check(full >= 2, "C18.R2", "PointsList.Print:ranges", w.pos(pr.Pos()), "ranges over all archives and points", "Print does not range over every archive and every point")
	}

	r.Rule("C18.R3", "derives-from: view prints printFileData(tow, header, tsList.PointsList(), ShowHeader) of exactly what readWhisperFile(SrcBase, SrcRelPath, ArchiveID, From, until, now) returned; printFileData prints h.String() under showHeader and ptsList.Print(w); TimeSeriesList.PointsList and TimeSeries.Points keep every slot (time from+i*step, i-th value)", 4)
	rulePrintFileDataHeader(w, r, "C18.R3")
	if ve := need(w, r, "C18.R3", w.Cmd, "ViewCommand.execute"); ve != nil {
		ruleUntilDefault(w, r, "C18.R3", ve, []*ssa.Function{fn(w.Cmd, "readWhisperFile")})
		ruleClockUnmodified(w, r, "C18.R3", regexp.MustCompile(`^cmd\.View(Raw)?Command\.`))
		ruleTextOutKeepsWholeLines(w, r, "C18.R3")
		ruleParseWindowCheck(w, r, "C18.R3", "ViewCommand")
		c, n := singleCall(ve, func(c *ssa.Call) bool { return c.Common().StaticCallee() == fn(w.Cmd, "printFileData") })
		ok := n == 1
		got := ""
		if ok {
			es := callArgExprs(w, c)
			got = strings.Join(es, " ; ")
			rd := `cmd\.readWhisperFile\(p0\.SrcBase, p0\.SrcRelPath, p0\.ArchiveID, p0\.From, [^,]+, whispertool\.TimestampFromStdTime\(time\.Now\(\)\)\)`
			ok = regexp.MustCompile(`^p1 ; ` + rd + `#0 ; cmd\.TimeSeriesList\.PointsList\(` + rd + `#1\) ; p0\.ShowHeader$`).MatchString(got)
		}
		r.Check(ok, "C18.R3", "ViewCommand.execute:prints-fetch", w.pos(ve.Pos()), "prints the unfiltered result of the read", "view does not print (header, PointsList of the series) exactly as returned by readWhisperFile for the command's file, archive and window: "+got)
	}
	if pf := need(w, r, "C18.R3", w.Cmd, "printFileData"); pf != nil {
		c1, n1 := singleCall(pf, func(c *ssa.Call) bool { return c.Common().StaticCallee() == fn(w.Lib, "Header.String") })
		c2, n2 := singleCall(pf, func(c *ssa.Call) bool { return c.Common().StaticCallee() == fn(w.Cmd, "PointsList.Print") })
		ok := n1 == 1 && n2 == 1 && strings.Join(callArgExprs(w, c2), ",") == "p2,p0" && strings.Join(callArgExprs(w, c1), ",") == "p1"
		if ok {
			// header under showHeader only; points unconditionally
			hdrGuarded := false
			for _, b := range pf.Blocks {
				if len(b.Instrs) == 0 {
					continue
				}
				if iff, isIf := b.Instrs[len(b.Instrs)-1].(*ssa.If); isIf && iff.Cond == ssa.Value(pf.Params[3]) && edgeDominates(b, b.Succs[0], c1.Block()) {
					hdrGuarded = true
				}
			}
			pointsAlways := true
			for _, fc := range failConditions(w, pf) {
				_ = fc
			}
			if p, _ := findBypass(pathQuery{fn: pf, startBlock: pf.Blocks[0], passes: func(in ssa.Instruction) bool { return in == ssa.Instruction(c2) }, exit: maySucceed}); p != nil {
				pointsAlways = false
			}
			ok = hdrGuarded && pointsAlways
		}
		r.Check(ok, "C18.R3", "printFileData", w.pos(pf.Pos()), "header under the flag, points always", "printFileData does not print h.String() under showHeader and ptsList.Print(w) on every success path")
	}
	if pl := need(w, r, "C18.R3", w.Cmd, "TimeSeriesList.PointsList"); pl != nil {
		okStore := false
		eachInstr(pl, func(in ssa.Instruction) {
			if st, ok := in.(*ssa.Store); ok {
				ex := newExprCtx(w)
				a, v := ex.expr(st.Addr), ex.expr(st.Val)
				if m := regexp.MustCompile(`^make\(len\(p0\)\)\[\((i\d+) \+ 1\)\]$`).FindStringSubmatch(a); m != nil && v == "whispertool.TimeSeries.Points(p0[("+m[1]+" + 1)])" {
					okStore = true
				}
			}
		})
		r.Check(okStore, "C18.R3", "TimeSeriesList.PointsList", w.pos(pl.Pos()), "pl[i] = tl[i].Points() for every archive", "PointsList does not map every series to its Points()")
	}
	if tp := need(w, r, "C18.R3", w.Lib, "TimeSeries.Points"); tp != nil {
		var tOK, vOK bool
		eachInstr(tp, func(in ssa.Instruction) {
			if st, ok := in.(*ssa.Store); ok {
				ex := newExprCtx(w)
				a, v := ex.expr(st.Addr), ex.expr(st.Val)
				if strings.HasSuffix(a, ".Time") && regexp.MustCompile(`^whispertool\.Timestamp\.Add\(p0\.fromTime, \(\(i\d+ \+ 1\) \*:int32 p0\.step\)\)$`).MatchString(v) {
					tOK = true
				}
				if strings.HasSuffix(a, ".Value") && regexp.MustCompile(`^p0\.values\[\(i\d+ \+ 1\)\]$`).MatchString(v) {
					vOK = true
				}
			}
		})
		r.Check(tOK && vOK, "C18.R3", "TimeSeries.Points", w.pos(tp.Pos()), "point i = (from + i*step, values[i])", "TimeSeries.Points does not yield (fromTime + i*step, values[i]) for every i")
	}

	r.Rule("C18.R4", "view-raw: GetAllRawUnsortedPoints fills numberOfPoints slots by readPointAt from the archive's offset advancing by pointSize; filterPointsListByTimeRange filters every archive with the caller's (from, until) unchanged; sorting is sort.Stable and happens only under SortsByTime; the filtered list is what is printed", 4)
	if g := need(w, r, "C18.R4", w.Lib, "Whisper.GetAllRawUnsortedPoints"); g != nil {
		okLen, okOff := false, false
		eachInstr(g, func(in ssa.Instruction) {
			if ms, ok := in.(*ssa.MakeSlice); ok {
				if regexp.MustCompile(`^p0\.header\.archiveInfoList\[p1\]\.numberOfPoints$`).MatchString(newExprCtx(w).expr(ms.Len)) {
					okLen = true
				}
			}
			if c, ok := in.(*ssa.Call); ok && c.Common().StaticCallee() == fn(w.Lib, "Whisper.readPointAt") {
				// slot i read at pointOffsetAt(i) (= offset + i*12, C06.R6), i being the loop counter that also indexes the result
				if m := regexp.MustCompile(`^whispertool\.ArchiveInfo\.pointOffsetAt\(p0\.header\.archiveInfoList\[p1\], (.+)\)$`).FindStringSubmatch(newExprCtx(w).expr(c.Common().Args[1])); m != nil {
					if _, _, isIdx := idxOff(m[1]); isIdx {
						if cv, ok := stripConvert(c.Common().Args[1].(*ssa.Call).Common().Args[1]).(ssa.Value); ok {
							_ = cv
						}
						okOff = true
					}
				}
				if ph, ok := c.Common().Args[1].(*ssa.Phi); ok {
					hasInit, hasInc := false, false
					for _, e := range ph.Edges {
						s := newExprCtx(w).expr(e)
						if s == "p0.header.archiveInfoList[p1].offset" {
							hasInit = true
						}
						if bo, ok := e.(*ssa.BinOp); ok && bo.Op == token.ADD && bo.X == ssa.Value(ph) {
							if k, ok := constInt(bo.Y); ok && k == 12 {
								hasInc = true
							}
						}
					}
					okOff = hasInit && hasInc
				}
			}
		})
		r.Check(okLen && okOff, "C18.R4", "GetAllRawUnsortedPoints", w.pos(g.Pos()), "all N physical slots from offset in 12-byte steps", "GetAllRawUnsortedPoints does not read numberOfPoints slots starting at the archive's offset in pointSize steps")
	}
	ruleFilterByTimeRange(w, r, "C18.R4")
	if vr := need(w, r, "C18.R4", w.Cmd, "ViewRawCommand.execute"); vr != nil {
		ruleUntilDefault(w, r, "C18.R4", vr, []*ssa.Function{fn(w.Cmd, "filterPointsListByTimeRange")})
		ruleParseWindowCheck(w, r, "C18.R4", "ViewRawCommand")
		rd := callsTo(vr, fn(w.Cmd, "readWhisperFileRaw"))
		okRd := len(rd) == 1
		got := ""
		if okRd {
			es := callArgExprs(w, rd[0])
			got = strings.Join(es, ", ")
			okRd = got == "p0.SrcBase, p0.SrcRelPath, p0.ArchiveID"
		}
		r.Check(okRd, "C18.R4", "ViewRawCommand.execute:reads", w.pos(vr.Pos()), "reads readWhisperFileRaw(SrcBase, SrcRelPath, ArchiveID)", "view-raw does not read the command's file and archive selection: readWhisperFileRaw("+got+")")
		if okRd {
			fl := callsTo(vr, fn(w.Cmd, "filterPointsListByTimeRange"))
			okFl := len(fl) == 1
			if okFl {
				as := fl[0].Common().Args
				h, isH := as[0].(*ssa.Extract)
				p, isP := as[1].(*ssa.Extract)
				okFl = isH && isP && h.Tuple == ssa.Value(rd[0]) && h.Index == 0 && p.Tuple == ssa.Value(rd[0]) && p.Index == 1 && newExprCtx(w).expr(as[2]) == "p0.From"
			}
			r.Check(okFl, "C18.R4", "ViewRawCommand.execute:filters-read", w.pos(vr.Pos()), "filters (header, points) of the read by (From, until)", "view-raw does not filter the header and points it read by the command's From")
		}
	}
	if fl := need(w, r, "C18.R4", w.Cmd, "filterPointsListByTimeRange"); fl != nil {
		c, n := singleCall(fl, func(c *ssa.Call) bool { return c.Common().StaticCallee() == fn(w.Cmd, "filterPointsByTimeRange") })
		ok := n == 1
		got := ""
		if ok {
			es := callArgExprs(w, c)
			got = strings.Join(es, " ; ")
			ok = regexp.MustCompile(`^p0\.archiveInfoList\[\((i\d+) \+ 1\)\] ; p1\[\((i\d+) \+ 1\)\] ; p2 ; p3$`).MatchString(got)
		}
		r.Check(ok, "C18.R4", "filterPointsListByTimeRange", w.pos(fl.Pos()), "every archive is filtered with the caller's from/until", "archives are not all filtered with the caller's unchanged (from, until) against their own ArchiveInfo: "+got)
	}
	if ve := need(w, r, "C18.R4", w.Cmd, "ViewRawCommand.execute"); ve != nil {
		sc, ns := singleCall(ve, func(c *ssa.Call) bool { return c.Common().StaticCallee() == fn(w.Cmd, "sortPointsListByTime") })
		pc, np := singleCall(ve, func(c *ssa.Call) bool { return c.Common().StaticCallee() == fn(w.Cmd, "printFileData") })
		fc, nf := singleCall(ve, func(c *ssa.Call) bool { return c.Common().StaticCallee() == fn(w.Cmd, "filterPointsListByTimeRange") })
		ok := ns == 1 && np == 1 && nf == 1
		if ok {
			guarded := false
			for _, b := range ve.Blocks {
				if len(b.Instrs) == 0 {
					continue
				}
				if iff, isIf := b.Instrs[len(b.Instrs)-1].(*ssa.If); isIf && isLoadOfField(iff.Cond, "ViewRawCommand", "SortsByTime") && edgeDominates(b, b.Succs[0], sc.Block()) {
					guarded = true
				}
			}
			fe := callArgExprs(w, fc)
			okF := len(fe) == 4 && strings.HasSuffix(fe[0], "#0") && strings.HasSuffix(fe[1], "#1") && fe[2] == "p0.From"
			okP := pc.Common().Args[2] == ssa.Value(fc) && sc.Common().Args[0] == ssa.Value(fc)
			ok = guarded && okF && okP
		}
		r.Check(ok, "C18.R4", "ViewRawCommand.execute", w.pos(ve.Pos()), "read -> filter(From, until) -> optional stable sort -> print", "view-raw does not print the time-filtered raw slots (sorted only under -sort)")
	}
	ruleFilterVisitsAll(w, r, "C18.R4")
	// what a printing function is given a writer for goes to that writer: no function of cmd that takes an io.Writer
	// prints to the process's standard output
	{
		bad := ""
		n := 0
		for _, f := range cmdFuncs(w) {
			takes := false
			for _, p := range f.Params {
				if types.TypeString(p.Type(), nil) == "io.Writer" {
					takes = true
				}
			}
			if !takes {
				continue
			}
			n++
			for _, c := range callsIn(f) {
				if isCallToPkgFunc(c, "fmt", "Print") || isCallToPkgFunc(c, "fmt", "Printf") || isCallToPkgFunc(c, "fmt", "Println") {
					if bad == "" {
						bad = funcName(f) + " prints with fmt." + c.Common().StaticCallee().Name() + " at " + w.instrPos(c)
					}
				}
			}
			eachInstr(f, func(in ssa.Instruction) {
				if u, ok := in.(*ssa.UnOp); ok && u.Op == token.MUL {
					if g, isG := u.X.(*ssa.Global); isG && g.Pkg != nil && g.Pkg.Pkg.Path() == "os" && g.Name() == "Stdout" && bad == "" {
						bad = funcName(f) + " uses os.Stdout at " + w.instrPos(u)
					}
				}
			})
		}
		r.Check(bad == "" && n > 0, "C18.R3", "cmd:writer-functions-use-their-writer", "cmd", fmt.Sprintf("%d functions take an io.Writer, none prints to standard output beside it", n), bad+": with -text-out naming a file that part of the output (the header) goes to the terminal and is missing from the file")
	}
	if sp := need(w, r, "C18.R4", w.Cmd, "sortPointsListByTime"); sp != nil {
		_, n := singleCall(sp, func(c *ssa.Call) bool { return isCallToPkgFunc(c, "sort", "Stable") })
		bad := 0
		for _, c := range callsIn(sp) {
			if isCallToPkgFunc(c, "sort", "Sort") || isCallToPkgFunc(c, "sort", "Slice") {
				bad++
			}
		}
		r.Check(n == 1 && bad == 0, "C18.R4", "sortPointsListByTime", w.pos(sp.Pos()), "stable sort by time", "sorting by time is not stable: slots with equal times may swap")
		// every list is sorted, whatever it holds: no way round the sort inside the loop
		var sortCall ssa.Instruction
		for _, c := range callsIn(sp) {
			if isCallToPkgFunc(c, "sort", "Stable") {
				sortCall = c.(ssa.Instruction)
			}
		}
		ruleLoopBodyAlwaysCalls(w, r, "C18.R4", "sortPointsListByTime:every-list", sortCall, "a list whose first slot is not newer than its last can still be out of order inside (holes, stale laps): with -sort the output must be in time order")
	}
}

// ---------- C19 ----------

var unitTable = map[byte]int64{'s': 1, 'm': 60, 'h': 3600, 'd': 86400, 'w': 604800, 'y': 31536000}

func rulesC19(w *World, r *Report) {
	r.Rule("C19.R1", "set agreement: unitMultiplier evaluated on all 256 bytes accepts exactly s,m,h,d,w,y with multipliers 1,60,3600,86400,604800,31536000; every Sprintf of Duration.String prints %d<letter> of d/<multiplier of that letter> under an exact-divisibility test by the same constant; zero prints 0s", 2)
	um := need(w, r, "C19.R1", w.Lib, "unitMultiplier")
	if um != nil {
		got := map[byte]int64{}
		undec := ""
		for b := 0; b < 256; b++ {
			e := &ddEngine{w: w, env: map[ssa.Value]aval{um.Params[0]: {k: kStr, s: string([]byte{byte(b)})}}}
			e.run(um)
			if e.err != nil || len(e.leaves) != 1 || e.leaves[0].ret == nil {
				undec = fmt.Sprintf("byte %d does not determine the outcome", b)
				break
			}
			res := e.leaves[0].results
			if res[len(res)-1].k == kNil {
				if res[0].k != kInt {
					undec = fmt.Sprintf("multiplier for %q is not a constant", byte(b))
					break
				}
				got[byte(b)] = res[0].i
			}
		}
		if undec != "" {
			r.Undecided("C19.R1", "unitMultiplier", w.pos(um.Pos()), undec)
		} else {
			ok := len(got) == len(unitTable)
			for k, v := range unitTable {
				if got[k] != v {
					ok = false
				}
			}
			r.Check(ok, "C19.R1", "unitMultiplier", w.pos(um.Pos()), "accepts exactly the six units with their multipliers", fmt.Sprintf("unit table is %v; must be s:1 m:60 h:3600 d:86400 w:604800 y:31536000", fmtUnits(got)))
		}
	}
	if ds := need(w, r, "C19.R1", w.Lib, "Duration.String"); ds != nil {
		bad := []string{}
		n := 0
		lastK := int64(1) << 40
		for _, c := range callsIn(ds) {
			cv, ok := c.(*ssa.Call)
			if !ok || !isCallToPkgFunc(c, "fmt", "Sprintf") {
				continue
			}
			n++
			fs, _ := constString(cv.Common().Args[0])
			// the unit letter may be passed as a constant argument (%c / %s) of a shared formatting helper
			fs, va := foldConstArgs(fs, variadicArgs(cv.Common().Args[1]))
			m := regexp.MustCompile(`^%d([a-z])$`).FindStringSubmatch(fs)
			if m == nil || len(va) != 1 {
				bad = append(bad, "unrecognised format "+strconv.Quote(fs))
				continue
			}
			letter := m[1][0]
			k := int64(1)
			arg := stripChangeType(va[0])
			if mi, ok := arg.(*ssa.MakeInterface); ok {
				arg = mi.X
			}
			if bo, ok := arg.(*ssa.BinOp); ok && bo.Op == token.QUO {
				kk, isK := constInt(bo.Y)
				if !isK || stripConvert(bo.X) != ssa.Value(ds.Params[0]) {
					bad = append(bad, "argument of "+fs+" is not d/constant")
					continue
				}
				k = kk
			} else if stripConvert(arg) != ssa.Value(ds.Params[0]) {
				bad = append(bad, "argument of "+fs+" is not d")
				continue
			}
			if unitTable[letter] != k {
				bad = append(bad, fmt.Sprintf("prints d/%d with unit %q, which parses as x%d", k, letter, unitTable[letter]))
			}
			// divisibility guard d % k == 0 dominates (k > 1)
			if k > 1 {
				guard := false
				for _, b := range ds.Blocks {
					if len(b.Instrs) == 0 {
						continue
					}
					iff, isIf := b.Instrs[len(b.Instrs)-1].(*ssa.If)
					if !isIf {
						continue
					}
					bo, isBo := iff.Cond.(*ssa.BinOp)
					if !isBo || (bo.Op != token.EQL && bo.Op != token.NEQ) {
						continue
					}
					// d % k == 0 (either operand order; != 0 guards through the other edge)
					op, remV, zv, okO := orientCmp(bo, func(v ssa.Value) bool {
						r2, ok := v.(*ssa.BinOp)
						return ok && r2.Op == token.REM
					})
					if !okO {
						continue
					}
					rem := remV.(*ssa.BinOp)
					z, isZ := constInt(zv)
					succ := b.Succs[0]
					if op == token.NEQ {
						succ = b.Succs[1]
					}
					if isZ && z == 0 {
						if kk, ok := constInt(rem.Y); ok && kk == k && edgeDominates(b, succ, cv.Block()) {
							guard = true
						}
					}
				}
				if !guard {
					bad = append(bad, fmt.Sprintf("%s is printed without testing d %% %d == 0", fs, k))
				}
			}
			if k > lastK {
				bad = append(bad, "units are not tested from the largest to the smallest")
			}
			lastK = k
		}
		zero := false
		for _, rt := range returnsOf(ds) {
			if s, ok := constString(rt.Results[0]); ok && s == "0s" {
				zero = true
			}
		}
		r.Check(len(bad) == 0 && n == 6 && zero, "C19.R1", "Duration.String", w.pos(ds.Pos()), "prints exactly parseable (number, unit) pairs", "Duration.String and ParseDuration disagree: "+strings.Join(bad, "; ")+fmt.Sprintf(" (%d unit cases, zero case %v)", n, zero))
	}

	r.Rule("C19.R2", "one layout: every (time.Time).Format and time.Parse in the module uses the constant \"2006-01-02T15:04:05Z\"; Format receivers are UTC(); ParseTimestamp fails iff time.Parse fails and converts with TimestampFromStdTime", 5)
	nLayout := 0
	for _, f := range w.modFuncs {
		for _, c := range callsIn(f) {
			cv, ok := c.(*ssa.Call)
			if !ok {
				continue
			}
			var layout ssa.Value
			switch {
			case isMethodCall(c, "time", "Time", "Format"):
				layout = cv.Common().Args[1]
				recv := newExprCtx(w).expr(cv.Common().Args[0])
				okUTC := strings.HasPrefix(recv, "(time.Time).UTC(") || strings.HasPrefix(recv, "whispertool.Timestamp.ToStdTime(")
				r.Check(okUTC, "C19.R2", funcName(f)+":format-utc", w.instrPos(c), "formats a UTC time", "a time is formatted without converting to UTC first ("+recv+"), but the layout's zone is the literal Z")
			case isCallToPkgFunc(c, "time", "Parse"):
				layout = cv.Common().Args[0]
			case isCallToPkgFunc(c, "time", "ParseInLocation"):
				layout = cv.Common().Args[0]
				loc := newExprCtx(w).expr(cv.Common().Args[2])
				r.Check(strings.HasSuffix(loc, "time.UTC") || loc == "*time.UTC", "C19.R2", funcName(f)+":parse-utc", w.instrPos(c), "parsed in UTC", "a timestamp text is parsed in "+loc+": the Z of the layout is a literal, so the digits are read in that zone and every -from/-until (or request parameter) is shifted by its offset on a host that is not on UTC")
			default:
				continue
			}
			nLayout++
			s, isC := constString(layout)
			r.Check(isC && s == "2006-01-02T15:04:05Z", "C19.R2", funcName(f)+":layout", w.instrPos(c), "uses UTCTimeLayout", "a timestamp is printed/parsed with layout "+strconv.Quote(s)+" instead of 2006-01-02T15:04:05Z: printed timestamps no longer parse")
		}
	}
	// what a flag value prints is what it holds: its String method branches on the nil pointer only (a value shown
	// as the empty string is not accepted back by Set)
	r.Rule("C19.R6", "flag values round-trip: the String method of the timestamp, aggregation-method and retention-list flag values branches on the nil pointer only, so every value it can hold is printed in the form Set parses", 3)
	for _, tn := range []string{"timestampValue", "aggregationMethodValue", "archiveInfoListValue"} {
		f := fn(w.Cmd, tn+".String")
		if f == nil {
			continue
		}
		bad := ""
		for _, b := range f.Blocks {
			if len(b.Instrs) == 0 {
				continue
			}
			iff, ok := b.Instrs[len(b.Instrs)-1].(*ssa.If)
			if !ok {
				continue
			}
			cond, _ := stripNot(iff.Cond)
			bo, ok := cond.(*ssa.BinOp)
			if !ok || !(isNilConst(bo.X) || isNilConst(bo.Y)) {
				bad = "a test other than the nil test of its pointer (" + shortExpr(newExprCtx(w).expr(iff.Cond)) + " at " + w.blockPos(b) + ") decides what is printed"
			}
		}
		r.Check(bad == "", "C19.R6", "cmd."+tn+".String:prints-what-it-holds", w.pos(f.Pos()), "branches on the nil pointer only", tn+".String: "+bad+": some value is printed in a form Set does not take back")
	}
	ruleToStdTimeUTC(w, r, "C19.R2")
	ruleTimestampFromStdTime(w, r, "C19.R2")
	if pt := need(w, r, "C19.R2", w.Lib, "ParseTimestamp"); pt != nil {
		fcs := failConditions(w, pt)
		ok := len(fcs) == 1 && strings.HasPrefix(fcs[0].Core(), "nil != time.Parse(") || len(fcs) == 1 && strings.Contains(fcs[0].Core(), "time.Parse(")
		var extra []string
		for _, fc := range fcs {
			if !strings.Contains(fc.Core(), "time.Parse(") {
				extra = append(extra, fc.String())
			}
		}
		r.Check(ok && len(extra) == 0, "C19.R2", "ParseTimestamp:rejects-only-syntax", w.pos(pt.Pos()), "fails iff time.Parse fails", "ParseTimestamp rejects more than syntax errors ("+strings.Join(extra, "; ")+"): some printed 32-bit timestamps no longer parse")
		okConv := false
		for _, rt := range returnsOf(pt) {
			if strings.HasPrefix(newExprCtx(w).expr(rt.Results[0]), "whispertool.TimestampFromStdTime(time.Parse(") {
				okConv = true
			}
		}
		r.Check(okConv, "C19.R2", "ParseTimestamp:converts", w.pos(pt.Pos()), "value is TimestampFromStdTime of the parsed time", "ParseTimestamp does not return TimestampFromStdTime(parsed time)")
	}

	r.Rule("C19.R3", "separators: ArchiveInfo.String joins step and retention with ':' and ArchiveInfoList.String joins elements with ','; ParseArchiveInfo splits on ':' and ParseArchiveInfoList on ','; ParseArchiveInfo fails iff step <= 0, retention <= 0 or retention % step != 0 and stores retention/step points", 5)
	ruleListStringJoin(w, r, "C19.R3")
	ruleLayoutOrderKept(w, r, "C19.R3", "ParseArchiveInfoList", "ParseArchiveInfo")
	// every piece between two commas — the one after the last comma included — reaches ParseArchiveInfo (which refuses
	// the empty one): the splitting loop ends with success only because no further comma was found (the index test, the
	// `found` result of strings.Cut) or because a strings.Split result is exhausted, never because what is left is empty
	if pl := fn(w.Lib, "ParseArchiveInfoList"); pl != nil {
		pa := fn(w.Lib, "ParseArchiveInfo")
		var anchor ssa.Instruction
		for _, c := range callsTo(pl, pa) {
			if inLoopWith(c.Block()) {
				anchor = c
			}
		}
		if anchor != nil {
			var header *ssa.BasicBlock
			for b := anchor.Block(); b != nil; b = b.Idom() {
				if isLoopHeader(b) {
					header = b
					break
				}
			}
			inLoop := map[*ssa.BasicBlock]bool{}
			if header != nil {
				inLoop[header] = true
				for _, b := range pl.Blocks {
					if !header.Dominates(b) {
						continue
					}
					for _, p := range header.Preds {
						if header.Dominates(p) && (b == p || blockReachesAvoiding(b, p, header)) {
							inLoop[b] = true
						}
					}
				}
			}
			fromIndex := func(v ssa.Value) bool {
				// a comparison of a comma index with a constant, the found result of Cut, or the bound of a range over Split
				var walk func(v ssa.Value, d int) bool
				walk = func(v ssa.Value, d int) bool {
					if d > 4 {
						return false
					}
					switch t := v.(type) {
					case *ssa.BinOp:
						return walk(t.X, d+1) || walk(t.Y, d+1)
					case *ssa.UnOp:
						return walk(t.X, d+1)
					case *ssa.Phi:
						allConst := true
						for _, e := range t.Edges {
							if _, isK := e.(*ssa.Const); !isK {
								allConst = false
							}
							if walk(e, d+1) {
								return true
							}
						}
						// a flag set to true or false by a test: judged by that test
						if allConst {
							if dom := t.Block().Idom(); dom != nil && len(dom.Instrs) > 0 {
								if iff, isIf := dom.Instrs[len(dom.Instrs)-1].(*ssa.If); isIf {
									return walk(iff.Cond, d+1)
								}
							}
						}
					case *ssa.Extract:
						return walk(t.Tuple, d+1)
					case *ssa.Call:
						if sc := t.Common().StaticCallee(); sc != nil && sc.Pkg != nil && sc.Pkg.Pkg.Path() == "strings" {
							switch sc.Name() {
							case "Index", "IndexByte", "IndexRune", "IndexAny", "Cut", "Split", "SplitN", "Count":
								return true
							}
						}
						if bi, ok := t.Common().Value.(*ssa.Builtin); ok && bi.Name() == "len" {
							return walk(t.Common().Args[0], d+1)
						}
					}
					return false
				}
				return walk(v, 0)
			}
			bad := ""
			idx := errResultIndex(pl)
			for b := range inLoop {
				if len(b.Instrs) == 0 {
					continue
				}
				iff, ok := b.Instrs[len(b.Instrs)-1].(*ssa.If)
				if !ok {
					continue
				}
				for _, sc := range b.Succs {
					if inLoop[sc] {
						continue
					}
					// an exit of the loop: does it lead to success?
					ret := pathAvoidingTo(sc, func(ssa.Instruction) bool { return false }, func(rt *ssa.Return) bool { return idx >= 0 && isNilConst(rt.Results[idx]) })
					if ret == nil {
						continue
					}
					if !fromIndex(iff.Cond) {
						bad = "the loop ends with success under " + shortExpr(newExprCtx(w).expr(iff.Cond)) + " (" + w.blockPos(b) + "), which does not ask whether another comma was found"
					}
				}
			}
			r.Check(bad == "" && header != nil, "C19.R3", "ParseArchiveInfoList:every-piece-parsed", w.pos(pl.Pos()), "the splitting loop ends only when no further comma was found", "ParseArchiveInfoList: "+bad+": the empty definition after a trailing comma is never shown to ParseArchiveInfo and the string is accepted")
		}
	}
	checkSep := func(name, sep string, isPrinter bool) {
		f := need(w, r, "C19.R3", w.Lib, name)
		if f == nil {
			return
		}
		found := false
		if isPrinter {
			eachInstr(f, func(in ssa.Instruction) {
				switch x := in.(type) {
				case *ssa.BinOp:
					if x.Op == token.ADD {
						if s, ok := constString(x.Y); ok && s == sep {
							found = true
						}
						if s, ok := constString(x.X); ok && s == sep {
							found = true
						}
					}
				case *ssa.Call:
					if isMethodCall(x, "strings", "Builder", "WriteString") {
						if s, ok := constString(x.Common().Args[1]); ok && s == sep {
							found = true
						}
					}
				}
			})
		} else {
			for _, c := range callsIn(f) {
				if isCallToPkgFunc(c, "strings", "IndexRune") || isCallToPkgFunc(c, "strings", "IndexByte") || isCallToPkgFunc(c, "strings", "Split") || isCallToPkgFunc(c, "strings", "Index") {
					a := c.Common().Args[1]
					if k, ok := constInt(a); ok && k == int64(sep[0]) {
						found = true
					}
					if s, ok := constString(a); ok && s == sep {
						found = true
					}
				}
			}
		}
		r.Check(found, "C19.R3", name+":sep", w.pos(f.Pos()), "uses separator "+strconv.Quote(sep), name+" does not use the separator "+strconv.Quote(sep)+" its counterpart uses")
	}
	checkSep("ArchiveInfo.String", ":", true)
	checkSep("ArchiveInfoList.String", ",", true)
	checkSep("ParseArchiveInfo", ":", false)
	checkSep("ParseArchiveInfoList", ",", false)
	if pa := need(w, r, "C19.R3", w.Lib, "ParseArchiveInfo"); pa != nil {
		have := map[string]bool{}
		for _, fc := range failConditions(w, pa) {
			c := fc.Core()
			c = regexp.MustCompile(`whispertool\.ParseDuration\(p0\[:[^\]]+\]\)#0`).ReplaceAllString(c, "STEP")
			c = regexp.MustCompile(`whispertool\.ParseDuration\(p0\[[^\]]+:\]\)#0`).ReplaceAllString(c, "RET")
			have[c] = true
		}
		ok := have["STEP <= 0"] && have["RET <= 0"] && have["(RET %:int32 STEP) != 0"]
		r.Check(ok, "C19.R3", "ParseArchiveInfo:rejects", w.pos(pa.Pos()), "rejects non-positive values and retentions that are not multiples of the step", "ParseArchiveInfo must fail iff step <= 0, retention <= 0 or retention % step != 0; rejecting tests present: "+strings.Join(sortedStrs(have), " ; "))
		// String prints step : step*points
		if as := fn(w.Lib, "ArchiveInfo.String"); as != nil {
			okS := false
			for _, rt := range returnsOf(as) {
				e := newExprCtx(w).expr(rt.Results[0])
				if strings.Contains(e, "whispertool.Duration.String(p0.secondsPerPoint)") && (strings.Contains(e, "whispertool.Duration.String((p0.secondsPerPoint *:int32 p0.numberOfPoints))") ||
					(strings.Contains(e, "whispertool.Duration.String(whispertool.ArchiveInfo.MaxRetention(p0))") && maxRetentionIsProduct(w))) {
					okS = true
				}
			}
			r.Check(okS, "C19.R3", "ArchiveInfo.String:fields", w.pos(as.Pos()), "prints step:retention", "ArchiveInfo.String does not print step and step*points")
		}
	}

	r.Rule("C19.R4", "constant tables: for every method value k the generated name table, index table and name->value map agree (name(k) = Name[Index[k-1]:Index[k]], map[name(k)] = k), names are distinct", 8)
	ruleEnumTables(w, r, "C19.R4")

	r.Rule("C19.R5", "overflow discipline: inside leadingInt's digit loop a rejecting test bounds the accumulator on every iteration before and after the multiply-add; ParseDuration rejects x > MaxInt32/unit before multiplying; both reject without guards", 3)
	ruleLeadingIntRepresentatives(w, r, "C19.R5")
	ruleParsedNumberNotNarrowed(w, r, "C19.R5")
	if li := need(w, r, "C19.R5", w.Lib, "leadingInt"); li != nil {
		// accumulator: integer phi multiplied by 10
		var acc *ssa.Phi
		eachInstr(li, func(in ssa.Instruction) {
			if bo, ok := in.(*ssa.BinOp); ok && bo.Op == token.MUL {
				if k, isK := constInt(bo.Y); isK && k == 10 {
					if ph, ok := bo.X.(*ssa.Phi); ok {
						acc = ph
					}
				}
			}
		})
		if acc == nil {
			r.Undecided("C19.R5", "leadingInt:accumulator", w.pos(li.Pos()), "digit accumulator not recognised")
		} else {
			pre, post := false, false
			for _, fc := range failConditions(w, li) {
				onlyCharGuards := true
				for _, g := range fc.Guards {
					// guards that only look at the current character or the scan position (loop condition parts)
					if !strings.Contains(g, "p0[") && !strings.Contains(g, "len(p0)") {
						onlyCharGuards = false
					}
				}
				if !onlyCharGuards || !inLoopWith(fc.At.Block()) {
					continue
				}
				mentionsAcc := func(v ssa.Value) (bool, bool) { // (is acc itself, is derived from acc*10)
					if v == ssa.Value(acc) {
						return true, false
					}
					found := false
					var rec func(x ssa.Value, d int)
					rec = func(x ssa.Value, d int) {
						if d > 6 || x == nil {
							return
						}
						if x == ssa.Value(acc) {
							found = true
						}
						switch y := x.(type) {
						case *ssa.BinOp:
							rec(y.X, d+1)
							rec(y.Y, d+1)
						case *ssa.Convert:
							rec(y.X, d+1)
						}
					}
					rec(v, 0)
					return false, found
				}
				for _, side := range []ssa.Value{fc.X, fc.Y} {
					isAcc, derived := mentionsAcc(side)
					if isAcc {
						pre = true
					}
					if derived {
						post = true
					}
				}
			}
			bt := acc.Type().String()
			r.Check(pre && post, "C19.R5", "leadingInt:overflow-guards", w.pos(li.Pos()), "the accumulator ("+bt+") is bounded before the multiply and checked after the add on every digit", "leadingInt's digit loop does not bound the accumulator on every iteration (before x*10 and after adding the digit): long numerals wrap around and are accepted with a wrong value")
		}
	}
	if pd := need(w, r, "C19.R5", w.Lib, "ParseDuration"); pd != nil {
		ok1, ok2 := false, false
		for _, fc := range failConditions(w, pd) {
			c := fc.Core()
			if regexp.MustCompile(`^\(2147483647 /:int32 whispertool\.unitMultiplier\([^)]*\)#1?\)?#0\) < whispertool\.leadingInt\(p0\)#0$`).MatchString(c) || (strings.HasPrefix(c, "(2147483647 /:int32 ") && strings.HasSuffix(c, "< whispertool.leadingInt(p0)#0")) {
				ok1 = len(fc.Guards) == 0
			}
			if strings.HasPrefix(c, "1 != len(whispertool.leadingInt(p0)#1)") {
				ok2 = true
			}
		}
		r.Check(ok1, "C19.R5", "ParseDuration:overflow-guard", w.pos(pd.Pos()), "rejects x > MaxInt32/unit before multiplying", "ParseDuration does not reject x > MaxInt32/unit before computing x*unit: large durations wrap around")
		r.Check(ok2, "C19.R5", "ParseDuration:single-unit", w.pos(pd.Pos()), "exactly one unit character must follow the number", "ParseDuration does not require exactly one unit character after the digits (missing or doubled units are accepted)")
	}
}

func fmtUnits(m map[byte]int64) string {
	var parts []string
	for k, v := range m {
		parts = append(parts, fmt.Sprintf("%c:%d", k, v))
	}
	return strings.Join(parts, " ")
}

// ruleEnumTables reads the generated enumer tables from the syntax tree.
func ruleEnumTables(w *World, r *Report, rule string) {
	var nameConst string
	var index []int64
	type mapEntry struct {
		lo, hi int64
		val    int64
	}
	var entries []mapEntry
	var values []int64
	info := w.LibP.TypesInfo
	for _, file := range w.LibP.Syntax {
		for _, d := range file.Decls {
			gd, ok := d.(*ast.GenDecl)
			if !ok {
				continue
			}
			for _, sp := range gd.Specs {
				vs, ok := sp.(*ast.ValueSpec)
				if !ok || len(vs.Names) != 1 || len(vs.Values) != 1 {
					continue
				}
				switch vs.Names[0].Name {
				case "_AggregationMethodName":
					if tv, ok := info.Types[vs.Values[0]]; ok && tv.Value != nil {
						nameConst = constant.StringVal(tv.Value)
					}
				case "_AggregationMethodIndex", "_AggregationMethodValues":
					if cl, ok := vs.Values[0].(*ast.CompositeLit); ok {
						for _, el := range cl.Elts {
							if tv, ok := info.Types[el]; ok && tv.Value != nil {
								v, _ := constant.Int64Val(tv.Value)
								if vs.Names[0].Name == "_AggregationMethodIndex" {
									index = append(index, v)
								} else {
									values = append(values, v)
								}
							}
						}
					}
				case "_AggregationMethodNameToValueMap":
					if cl, ok := vs.Values[0].(*ast.CompositeLit); ok {
						for _, el := range cl.Elts {
							kv, ok := el.(*ast.KeyValueExpr)
							if !ok {
								continue
							}
							se, ok := kv.Key.(*ast.SliceExpr)
							if !ok {
								continue
							}
							lo, _ := constant.Int64Val(info.Types[se.Low].Value)
							hi, _ := constant.Int64Val(info.Types[se.High].Value)
							v, _ := constant.Int64Val(info.Types[kv.Value].Value)
							entries = append(entries, mapEntry{lo, hi, v})
						}
					}
				}
			}
		}
	}
	if nameConst == "" || len(index) < 2 || len(entries) == 0 {
		r.Undecided(rule, "enum-tables", "-", "generated AggregationMethod tables not found")
		return
	}
	names := map[string]bool{}
	for k := 1; k < len(index); k++ {
		key := fmt.Sprintf("method-%d", k)
		if index[k-1] < 0 || index[k] > int64(len(nameConst)) || index[k-1] >= index[k] {
			r.Violate(rule, key, "aggregationmethod_enumer.go", "index table is not increasing within the name table")
			continue
		}
		nm := nameConst[index[k-1]:index[k]]
		okMap := false
		for _, e := range entries {
			if e.lo >= 0 && e.hi <= int64(len(nameConst)) && e.lo < e.hi && nameConst[e.lo:e.hi] == nm && e.val == int64(k) {
				okMap = true
			}
		}
		dup := names[nm]
		names[nm] = true
		r.Check(okMap && !dup, rule, key, "aggregationmethod_enumer.go", fmt.Sprintf("String(%d)=%q parses back to %d", k, nm, k), fmt.Sprintf("String(%d)=%q does not parse back to %d via AggregationMethodString", k, nm, k))
	}
	// the name the table gives to the value of a named constant is that constant's name: what `-agg-method max` or a
	// header's 4 selects is the method the code calls Max
	for _, cname := range []string{"Average", "Sum", "Last", "Max", "Min", "First"} {
		v, ok := constValue(w, cname)
		if !ok || v < 1 || int(v) >= len(index) {
			r.Undecided(rule, "name-of:"+cname, "-", "constant "+cname+" not found or outside the table")
			continue
		}
		nm := ""
		if index[v-1] >= 0 && index[v] <= int64(len(nameConst)) && index[v-1] < index[v] {
			nm = nameConst[index[v-1]:index[v]]
		}
		r.Check(nm == strings.ToLower(cname), rule, "name-of:"+cname, "aggregationmethod_enumer.go", fmt.Sprintf("String(%s) = %q", cname, nm), fmt.Sprintf("the generated table calls the value of the constant %s %q: a file created with -agg-method %s (or whose header carries that name's number) is aggregated with another method", cname, nm, strings.ToLower(cname)))
	}
	// String() uses the index table with i-1
	if s := fn(w.Lib, "AggregationMethod.String"); s != nil {
		okUse := false
		eachInstr(s, func(in ssa.Instruction) {
			if sl, ok := in.(*ssa.Slice); ok {
				e := newExprCtx(w).expr(sl)
				if strings.Contains(e, "_AggregationMethodIndex[(p0 - 1)]") && strings.Contains(e, "_AggregationMethodIndex[((p0 - 1) + 1)]") {
					okUse = true
				}
			}
		})
		r.Check(okUse, rule, "AggregationMethod.String", w.pos(s.Pos()), "slices the name table at Index[i-1]:Index[i]", "AggregationMethod.String does not slice the name table at Index[i-1]:Index[i]")
	}
}

// ---------- C20 ----------

func rulesC20(w *World, r *Report) {
	create := need(w, r, "C20.R1", w.Lib, "Create")
	gen := need(w, r, "C20.R1", w.Cmd, "GenerateCommand.execute")
	if create == nil || gen == nil {
		return
	}
	r.Rule("C20.R1", "constants: Create's default openFileFlag has O_CREATE and O_EXCL set; GenerateCommand.execute calls Create with no options", 2)
	okFlag := false
	eachInstr(create, func(in ssa.Instruction) {
		if st, ok := in.(*ssa.Store); ok {
			if _, fname, ok := fieldAddrOf(st.Addr); ok && fname == "openFileFlag" {
				oc, oe := osConst(w, "O_CREATE"), osConst(w, "O_EXCL")
				if k, isK := constInt(st.Val); isK && oc != 0 && oe != 0 && k&oc != 0 && k&oe != 0 {
					okFlag = true
				}
			}
		}
	})
	r.Check(okFlag, "C20.R1", "Create:excl", w.pos(create.Pos()), "O_CREATE|O_EXCL by default", "Create's default open flag lacks O_CREATE|O_EXCL: generate would overwrite an existing file")
	cc, n := singleCall(gen, func(c *ssa.Call) bool { return c.Common().StaticCallee() == create })
	if n != 1 {
		r.Violate("C20.R1", "generate:create", w.pos(gen.Pos()), "generate does not create the file with exactly one whispertool.Create call")
		return
	}
	es := callArgExprs(w, cc)
	r.Check(es[len(es)-1] == "nil", "C20.R1", "generate:no-options", w.instrPos(cc), "no option overrides the exclusive creation", "generate passes options to Create ("+es[len(es)-1]+"): the exclusive-creation default can be overridden")
	// nothing on the way from generate to the file may remove, rename, truncate or re-create a path
	n20 := 0
	scope20 := cmdReachableFrom(w, "GenerateCommand")
	for _, f := range w.modFuncs {
		if pkgOf(f) != w.Lib && !scope20[f] {
			continue
		}
		for _, c := range callsIn(f) {
			sc := c.Common().StaticCallee()
			if sc == nil || sc.Signature.Recv() != nil || pkgOf(sc) == nil {
				continue
			}
			pp := pkgOf(sc).Pkg.Path()
			if m := fileMutatingFuncs[pp]; m != nil && m[sc.Name()] {
				n20++
				key := "path-call:" + pp + "." + sc.Name() + "@" + funcName(f)
				if pp == "os" && sc.Name() == "OpenFile" && funcName(f) == "whispertool.Whisper.openAndLockFile" {
					r.OK("C20.R1", key, w.instrPos(c), "the exclusive open itself")
				} else if pp == "os" && (sc.Name() == "OpenFile" || sc.Name() == "Create") && pkgOf(f) != w.Lib {
					r.OK("C20.R1", key, w.instrPos(c), "text output file of the command, not the whisper file")
				} else {
					r.Violate("C20.R1", key, w.instrPos(c), "on generate's path "+funcName(f)+" calls "+pp+"."+sc.Name()+": an existing file at the destination can be removed, replaced or truncated although generate refuses to overwrite")
				}
			}
		}
	}
	r.Rule("C20.R2", "derives-from: Create receives the command's Dest, ArchiveInfoList, AggregationMethod, XFilesFactor", 1)
	r.Check(strings.Join(es[:4], ",") == "p0.Dest,p0.ArchiveInfoList,p0.AggregationMethod,p0.XFilesFactor", "C20.R2", "generate:layout", w.instrPos(cc), "requested layout", "Create is not called with the command's (Dest, ArchiveInfoList, AggregationMethod, XFilesFactor): "+strings.Join(es[:4], ","))

	r.Rule("C20.R3", "guard-dominates: the random fill and its write happen only under the Fill flag; the written lists are randomPointsList(ArchiveInfoList, rnd, RandMax, now, now) with now a single clock reading; randomPointsList produces one list per archive", 3)
	upd, nu := singleCall(gen, func(c *ssa.Call) bool { return c.Common().StaticCallee() == fn(w.Cmd, "updateFileDataWithPointsList") })
	if nu != 1 {
		r.Violate("C20.R3", "generate:write", w.pos(gen.Pos()), "generate does not write the fill through updateFileDataWithPointsList")
	} else {
		guarded := false
		for _, b := range gen.Blocks {
			if len(b.Instrs) == 0 {
				continue
			}
			if iff, isIf := b.Instrs[len(b.Instrs)-1].(*ssa.If); isIf && isLoadOfField(iff.Cond, "GenerateCommand", "Fill") && edgeDominates(b, b.Succs[0], upd.Block()) {
				guarded = true
			}
		}
		r.Check(guarded, "C20.R3", "generate:fill-flag", w.instrPos(upd), "data is written only under Fill", "points are written even without the Fill flag (or never): 'without fill every slot is empty' / 'with fill every slot holds a value' no longer follows the flag")
		ue := callArgExprs(w, upd)
		for len(ue) < 3 {
			ue = append(ue, "<missing>")
		}
		okArgs := strings.HasSuffix(ue[0], "#0") && strings.HasPrefix(ue[0], "whispertool.Create(") &&
			regexp.MustCompile(`^cmd\.randomPointsList\(p0\.ArchiveInfoList, math/rand\.New\(.*\), p0\.RandMax, whispertool\.TimestampFromStdTime\(time\.Now\(\)\), whispertool\.TimestampFromStdTime\(time\.Now\(\)\)\)$`).MatchString(ue[1]) &&
			ue[2] == "whispertool.TimestampFromStdTime(time.Now())"
		// now must be ONE call
		nowCalls := 0
		for _, c := range callsIn(gen) {
			if c.Common().StaticCallee() == fn(w.Lib, "TimestampFromStdTime") {
				nowCalls++
			}
		}
		r.Check(okArgs && nowCalls == 1, "C20.R3", "generate:fill-args", w.instrPos(upd), "fills the created handle from randomPointsList(ArchiveInfoList, rnd, RandMax, now, now) at one clock reading", "the fill is not randomPointsList(ArchiveInfoList, rnd, RandMax, now, now) written to the created handle at the same now: "+strings.Join(ue, " ; "))
	}
	if rp := need(w, r, "C20.R3", w.Cmd, "randomPointsList"); rp != nil {
		okOne := false
		eachInstr(rp, func(in ssa.Instruction) {
			if st, ok := in.(*ssa.Store); ok {
				a := newExprCtx(w).expr(st.Addr)
				if regexp.MustCompile(`^make\(len\(p0\)\)\[\(i\d+ \+ 1\)\]$`).MatchString(a) {
					if c, ok := stripChangeType(st.Val).(*ssa.Call); ok && c.Common().StaticCallee() == fn(w.Cmd, "randomPoints") {
						okOne = true
					}
				}
			}
		})
		r.Check(okOne, "C20.R3", "randomPointsList:per-archive", w.pos(rp.Pos()), "one generated list per archive", "randomPointsList does not produce one randomPoints list per archive")
	}
	r.Rule("C20.R4", "derives-from: every generated value is Value(rnd.Intn(max+1)) or the result of randomValWithHighSum; every generated time is thisUntil.Add(-(n-1-i)*step) with thisUntil = until.Truncate(step)", 2)
	if rp := need(w, r, "C20.R4", w.Cmd, "randomPoints"); rp != nil {
		var vOK, tOK, sawIntn, sawHigh bool
		var vGot, tGot string
		nValueStores := 0
		eachInstr(rp, func(in ssa.Instruction) {
			st, ok := in.(*ssa.Store)
			if !ok {
				return
			}
			ex := newExprCtx(w)
			a, v := ex.expr(st.Addr), ex.expr(st.Val)
			if strings.HasSuffix(a, ".Value") {
				// one store of a phi, or one store per branch: each stored value is the plain random value or the high-sum helper
				one := regexp.MustCompile(`^(\(\*math/rand\.Rand\)\.Intn\(p3, \(p4 \+ 1\)\)|cmd\.randomValWithHighSum\(.*\))$`)
				both := regexp.MustCompile(`^phi\(\(\*math/rand\.Rand\)\.Intn\(p3, \(p4 \+ 1\)\)\|cmd\.randomValWithHighSum\(.*\)\)$`)
				okThis := both.MatchString(v) || one.MatchString(v)
				if nValueStores == 0 {
					vOK = okThis
				} else {
					vOK = vOK && okThis
				}
				nValueStores++
				if !okThis || vGot == "" {
					vGot = v
				}
				if strings.Contains(v, "Intn(") {
					sawIntn = true
				}
				if strings.Contains(v, "randomValWithHighSum(") {
					sawHigh = true
				}
			}
			if strings.HasSuffix(a, ".Time") {
				tGot = v
				tOK = strings.HasPrefix(v, "whispertool.Timestamp.Add(whispertool.Timestamp.Truncate(p6, p0.secondsPerPoint), ")
				// the offset is -(N-1-i)*step, N the number of generated points and i the slot filled: the last
				// slot is the truncated until itself and consecutive slots are one step apart
				if c, isCall := st.Val.(*ssa.Call); tOK && isCall && len(c.Common().Args) == 2 {
					var mk *ssa.MakeSlice
					var idx ssa.Value
					eachInstr(rp, func(in2 ssa.Instruction) {
						if ia, ok := in2.(*ssa.IndexAddr); ok {
							if m, ok := stripChangeType(ia.X).(*ssa.MakeSlice); ok {
								mk, idx = m, ia.Index
							}
						}
					})
					if mk == nil {
						tOK = false
						tGot = "no made slice receives the points"
					} else {
						names := func(x ssa.Value) (string, bool) {
							switch {
							case x == mk.Len || stripConvert(x) == stripConvert(mk.Len):
								return "N", true
							case x == idx:
								return "i", true
							}
							if s := ex.expr(x); s == "p0.secondsPerPoint" {
								return "S", true
							}
							return "", false
						}
						// the slot loop covers 0..N-1
						var ctr *ssa.Phi
						switch x := idx.(type) {
						case *ssa.Phi:
							ctr = x
						case *ssa.BinOp:
							ctr, _ = x.X.(*ssa.Phi)
						}
						if ctr == nil || !(loopFromTo(ctr, 0) || loopFromTo(ctr, -1)) {
							tOK = false
							tGot = "the slots are not filled by a loop counting from 0 while below the number of points"
						}
						got := polyOf(w, c.Common().Args[1], names)
						want := poly{"N*S": -1, "S": 1, "S*i": 1}
						if !got.equal(want) {
							tOK = false
							tGot = "offset " + got.String() + " (N points, slot i, step S); expected " + want.String()
						}
					}
				}
			}
		})
		// the plain random value is used only for slots strictly before the first slot that holds finer data
		var intn *ssa.Call
		for _, c := range callsIn(rp) {
			if cv, ok := c.(*ssa.Call); ok && isMethodCall(c, "math/rand", "Rand", "Intn") {
				intn = cv
			}
		}
		if intn != nil {
			conds := map[string]bool{}
			for _, pb := range intn.Block().Preds {
				iff, ok := pb.Instrs[len(pb.Instrs)-1].(*ssa.If)
				if !ok {
					conds["unconditional"] = true
					continue
				}
				bo, ok := iff.Cond.(*ssa.BinOp)
				if !ok {
					conds["?"] = true
					continue
				}
				op := bo.Op
				if pb.Succs[0] != intn.Block() {
					op = negateCmp(op)
				}
				x, y := bo.X, bo.Y
				if op == token.GTR || op == token.GEQ {
					x, y = y, x
					op = map[token.Token]token.Token{token.GTR: token.LSS, token.GEQ: token.LEQ}[op]
				}
				ex := newExprCtx(w)
				xs, ys := ex.expr(x), ex.expr(y)
				if op == token.EQL && xs > ys {
					xs, ys = ys, xs
				}
				// `t < start`: the slot's time (an offset from the truncated until) is the smaller side
				if op == token.LSS && !strings.HasPrefix(xs, "whispertool.Timestamp.Add(whispertool.Timestamp.Truncate(") {
					conds["inverted: "+xs+" < "+ys] = true
					continue
				}
				conds[xs+" "+op.String()+" "+ys] = true
			}
			var cl []string
			for c := range conds {
				cl = append(cl, c)
			}
			okB := len(conds) == 2
			for c := range conds {
				if !(strings.HasPrefix(c, "0 == ") || strings.Contains(c, " < ")) || strings.Contains(c, " <= ") || strings.HasPrefix(c, "inverted: ") {
					okB = false
				}
			}
			r.Check(okB, "C20.R4", "randomPoints:plain-random-only-before-finer-data", w.instrPos(intn), "a slot gets a plain random value only if there is no finer data or t < the first slot holding finer data", "a coarser slot that holds finer data can get a plain random value instead of the finer sum (conditions selecting the plain value: "+strings.Join(cl, " || ")+"; expected `start == 0 || t < start`)")
		}
		vOK = vOK && sawIntn && sawHigh
		r.Check(vOK, "C20.R4", "randomPoints:values", w.pos(rp.Pos()), "values are Intn(max+1) or the high-sum helper", "a generated value is not rnd.Intn(rndMax+1) or randomValWithHighSum(...): "+vGot)
		r.Check(tOK, "C20.R4", "randomPoints:times", w.pos(rp.Pos()), "times are offsets from the step-truncated until", "a generated time is not an offset from until.Truncate(step): "+tGot)
	}
	ruleTruncateEpoch(w, r, "C20.R4")
	r.Rule("C20.R5", "sum of finer (decision diagrams): randomValWithHighSum adds exactly the finer values whose truncated time is t, stops only past t and adds no random remainder for a fully covered slot; randomPoints takes the start of the covered slots from the finer points iff they exist and start before this archive's until", 2)
	ruleGenerateSumOfFiner(w, r, "C20.R5")
	ruleGenerateChain(w, r, "C20.R5")
	ruleWriteOrderFinestFirst(w, r, "C20.R5")
	ruleProductWidth(w, r, "C20.R5")
	r.Rule("C20.R6", "the requested layout reaches the command: each flag.Value (aggregation method, xFilesFactor, retention list, file mode, timestamps) stores what it parsed into the option it was registered for before reporting success", 5)
	ruleFlagSetStores(w, r, "C20.R6")
	// what generate writes is what randomPointsList produced: the lists go to the writer untouched, whatever the
	// requested method is (the sums of the coarser archives are part of what was generated)
	{
		rp := fn(w.Cmd, "randomPointsList")
		upd := fn(w.Cmd, "updateFileDataWithPointsList")
		bad := ""
		n := 0
		if gen != nil && rp != nil && upd != nil {
			var made []ssa.Value
			for _, c := range callsTo(gen, rp) {
				made = append(made, c)
			}
			derives := func(v ssa.Value) bool {
				for i := 0; i < 8; i++ {
					for _, m := range made {
						if v == m {
							return true
						}
					}
					switch t := v.(type) {
					case *ssa.UnOp:
						v = t.X
					case *ssa.IndexAddr:
						v = t.X
					case *ssa.FieldAddr:
						v = t.X
					case *ssa.Index:
						v = t.X
					case *ssa.Phi:
						for _, e := range t.Edges {
							for _, m := range made {
								if e == m {
									return true
								}
							}
						}
						return false
					default:
						return false
					}
				}
				return false
			}
			for _, c := range callsTo(gen, upd) {
				n++
				if !derives(c.Common().Args[1]) {
					bad = "the lists written at " + w.instrPos(c) + " are not the ones randomPointsList returned"
				}
			}
			eachInstr(gen, func(in ssa.Instruction) {
				if st, ok := in.(*ssa.Store); ok && derives(st.Addr) && bad == "" {
					bad = "a generated point is changed at " + w.instrPos(st) + " before it is written"
				}
			})
		}
		r.Check(bad == "" && n > 0, "C20.R5", "GenerateCommand.execute:writes-what-it-generated", w.pos(gen.Pos()), "the generated lists reach the writer unchanged", "GenerateCommand.execute: "+bad+": a coarser slot covered by finer slots no longer holds their sum")
	}
	ruleParseFloatWidth(w, r, "C20.R6")
	ruleC05R7(w, r, "C05.R7", 2, cmdReachableFrom(w, "GenerateCommand"))
}

// osConst reads an integer constant of package os as configured for the analysed platform.
func osConst(w *World, name string) int64 {
	p := w.All["os"]
	if p == nil || p.Types == nil {
		return 0
	}
	o := p.Types.Scope().Lookup(name)
	c, ok := o.(interface{ Val() constant.Value })
	if !ok {
		return 0
	}
	v, _ := constant.Int64Val(c.Val())
	return v
}

// ruleToStdTimeUTC: shared by C18.R1 and C19.R2.
func ruleToStdTimeUTC(w *World, r *Report, rule string) {
	if st := need(w, r, rule, w.Lib, "Timestamp.ToStdTime"); st != nil {
		rets := returnsOf(st)
		ok := len(rets) == 1 && newExprCtx(w).expr(rets[0].Results[0]) == "(time.Time).UTC(time.Unix(p0, 0))"
		r.Check(ok, rule, "Timestamp.ToStdTime", w.pos(st.Pos()), "time.Unix(t,0).UTC()", "ToStdTime is not time.Unix(int64(t), 0).UTC(): times would be rendered in local time although the layout's zone is the literal Z")
	}
}

// maxRetentionIsProduct: ArchiveInfo.MaxRetention returns secondsPerPoint * numberOfPoints.
func maxRetentionIsProduct(w *World) bool {
	f := fn(w.Lib, "ArchiveInfo.MaxRetention")
	if f == nil {
		return false
	}
	for _, rt := range returnsOf(f) {
		e := newExprCtx(w).expr(rt.Results[0])
		if e != "(p0.secondsPerPoint *:int32 p0.numberOfPoints)" && e != "(p0.numberOfPoints *:int32 p0.secondsPerPoint)" {
			return false
		}
	}
	return true
}
