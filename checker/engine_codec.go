package main

import (
	"fmt"
	"go/token"
	"go/types"
	"regexp"
	"sort"
	"strings"

	"golang.org/x/tools/go/ssa"
)

// E-codec: cursor analysis of the AppendTo/TakeFrom pairs.
//
// Every []byte value derived from the input parameter gets a linear offset
// c + k*N (N: one symbolic element count, identified by its canonical
// expression). Guards `len(x) < K` with a failing edge establish a guaranteed
// total input length on their passing edge. Reads (binary.BigEndian.UintN),
// nested fixed-size decoders, WantLargerBufferError sizes and the returned
// remainder are checked against offsets and guarantees; the ordered field
// layout is extracted for comparison with the encoder.

type lin struct {
	c, k int64
	sym  string
	ok   bool
}

func linC(c int64) lin { return lin{c: c, ok: true} }

func (a lin) add(b lin) lin {
	if !a.ok || !b.ok {
		return lin{}
	}
	if a.k != 0 && b.k != 0 && a.sym != b.sym {
		return lin{}
	}
	s := a.sym
	if a.k == 0 {
		s = b.sym
	}
	r := lin{c: a.c + b.c, k: a.k + b.k, sym: s, ok: true}
	if r.k == 0 {
		r.sym = ""
	}
	return r
}

func (a lin) String() string {
	if !a.ok {
		return "?"
	}
	if a.k == 0 {
		return fmt.Sprintf("%d", a.c)
	}
	if a.c == 0 {
		return fmt.Sprintf("%d*%s", a.k, a.sym)
	}
	return fmt.Sprintf("%d+%d*%s", a.c, a.k, a.sym)
}

func (a lin) eq(b lin) bool {
	return a.ok && b.ok && a.c == b.c && a.k == b.k && (a.k == 0 || a.sym == b.sym)
}

// leq: a <= b for all N >= 0.
func (a lin) leq(b lin) bool {
	if !a.ok || !b.ok {
		return false
	}
	if a.k != 0 && b.k != 0 && a.sym != b.sym {
		return false
	}
	if a.k > b.k {
		return false
	}
	return a.c <= b.c
}

type codecRead struct {
	off   lin
	width int64
	dest  string // canonical destination (decoder) or source (encoder)
	via   string // conversion function between bits and value ("" if plain)
	order string
	pos   ssa.Instruction
	loop  bool
}

type codecNested struct {
	off   lin
	typ   string
	dest  string
	loop  bool
	count string // loop trip count (canonical expr) when loop
	pos   ssa.Instruction
}

type codecGuard struct {
	total lin // guaranteed total input length on the passing edge
	want  lin // WantedBufSize stored on the failing edge (ok=false if the failure is not a WantLargerBufferError)
	pos   ssa.Instruction
	pass  *ssa.BasicBlock
	from  *ssa.BasicBlock
}

type codecInfo struct {
	typ      string
	fn       *ssa.Function
	reads    []codecRead
	nested   []codecNested
	guards   []codecGuard
	returns  []lin // offsets of the remainder on success returns
	retPos   []ssa.Instruction
	size     lin // encoded size (ok=false if it could not be determined)
	problems []codecProblem
}

type codecProblem struct {
	rule, key, msg string
	pos            ssa.Instruction
}

type codecEngine struct {
	w        *World
	dec, enc map[string]*codecInfo
	busy     map[string]bool
}

func newCodecEngine(w *World) *codecEngine {
	return &codecEngine{w: w, dec: map[string]*codecInfo{}, enc: map[string]*codecInfo{}, busy: map[string]bool{}}
}

var codecTypes = []string{"Timestamp", "Duration", "Value", "Point", "ArchiveInfo", "Header", "TimeSeries", "Points"}

func recvTypeName(f *ssa.Function) string {
	if f == nil || f.Signature.Recv() == nil {
		return ""
	}
	return namedTypeName(f.Signature.Recv().Type())
}

func normField(s string) string {
	s = strings.TrimPrefix(s, "&")
	s = strings.TrimPrefix(s, "*")
	return s
}

var reGetterCall = regexp.MustCompile(`whispertool\.(\w+)\.(\w+)\(([^()]*)\)`)

// normGetters rewrites calls of trivial getters (methods whose every return
// is the receiver's field F, apart from a zero value under a nil guard) to
// field accesses, so that `ts.FromTime()` and `ts.fromTime` compare equal.
func (ce *codecEngine) normGetters(s string) string {
	return reGetterCall.ReplaceAllStringFunc(s, func(m string) string {
		sm := reGetterCall.FindStringSubmatch(m)
		f := fn(ce.w.Lib, sm[1]+"."+sm[2])
		if f == nil || len(f.Params) != 1 {
			return m
		}
		field := ""
		for _, rt := range returnsOf(f) {
			if len(rt.Results) != 1 {
				return m
			}
			v := rt.Results[0]
			if k, ok := v.(*ssa.Const); ok && (k.Value == nil || k.Value.String() == "0") {
				continue // zero value under the nil guard
			}
			u, ok := v.(*ssa.UnOp)
			if !ok {
				return m
			}
			base, fname, ok := fieldAddrOf(u.X)
			if !ok || base != ssa.Value(f.Params[0]) {
				return m
			}
			if field != "" && field != fname {
				return m
			}
			field = fname
		}
		if field == "" {
			return m
		}
		return normField(sm[3]) + "." + field
	})
}

// mulLin interprets v as k*sym or a constant.
func (ce *codecEngine) valueLin(v ssa.Value) lin {
	v = stripConvert(v)
	if k, ok := constInt(v); ok {
		return linC(k)
	}
	if bo, ok := v.(*ssa.BinOp); ok {
		switch bo.Op {
		case token.MUL:
			if k, ok := constInt(stripConvert(bo.Y)); ok {
				return lin{k: k, sym: newExprCtx(ce.w).expr(stripConvert(bo.X)), ok: true}
			}
			if k, ok := constInt(stripConvert(bo.X)); ok {
				return lin{k: k, sym: newExprCtx(ce.w).expr(stripConvert(bo.Y)), ok: true}
			}
		case token.ADD:
			return ce.valueLin(bo.X).add(ce.valueLin(bo.Y))
		}
	}
	return lin{k: 1, sym: newExprCtx(ce.w).expr(v), ok: true}
}

// loopInfo: for a []byte phi at a loop header: initial value, per-iteration step and trip count.
type byteLoop struct {
	phi   *ssa.Phi
	init  ssa.Value
	next  ssa.Value
	count string
}

func loopBlocks(h *ssa.BasicBlock) map[*ssa.BasicBlock]bool {
	in := map[*ssa.BasicBlock]bool{}
	for _, b := range h.Parent().Blocks {
		if !h.Dominates(b) {
			continue
		}
		// b in loop if h reachable from b
		seen := map[*ssa.BasicBlock]bool{}
		q := []*ssa.BasicBlock{b}
		for len(q) > 0 {
			x := q[0]
			q = q[1:]
			if seen[x] {
				continue
			}
			seen[x] = true
			for _, s := range x.Succs {
				if s == h {
					in[b] = true
				}
				if h.Dominates(s) && s != h {
					q = append(q, s)
				}
			}
		}
	}
	in[h] = true
	return in
}

// tripCount recognises `for i := 0; i < N; i++` and range-over-slice loops at header h.
func (ce *codecEngine) tripCount(h *ssa.BasicBlock) string {
	if len(h.Instrs) == 0 {
		return ""
	}
	iff, ok := h.Instrs[len(h.Instrs)-1].(*ssa.If)
	if !ok {
		return ""
	}
	bo0, ok := iff.Cond.(*ssa.BinOp)
	if !ok {
		return ""
	}
	// `i < N` or `N > i`: read with the counter on the left
	isCtr := func(v ssa.Value) bool {
		if ph, ok := v.(*ssa.Phi); ok && ph.Block() == h {
			return true
		}
		if b2, ok := v.(*ssa.BinOp); ok && b2.Op == token.ADD {
			if ph, ok := b2.X.(*ssa.Phi); ok && ph.Block() == h {
				return true
			}
		}
		return false
	}
	op0, x0, y0, okO := orientCmp(bo0, isCtr)
	if !okO || op0 != token.LSS {
		return ""
	}
	bo := &struct{ X, Y ssa.Value }{x0, y0}
	// counter
	var ctr *ssa.Phi
	var bound ssa.Value
	if ph, ok := bo.X.(*ssa.Phi); ok && ph.Block() == h {
		ctr, bound = ph, bo.Y
	} else if b2, ok := bo.X.(*ssa.BinOp); ok && b2.Op == token.ADD { // range loops: (phi + 1) < len
		if ph, ok := b2.X.(*ssa.Phi); ok && ph.Block() == h {
			if k, isK := constInt(b2.Y); isK && k == 1 {
				ctr, bound = ph, bo.Y
				// starts at -1
				if !loopFromTo(ph, -1) {
					return ""
				}
				return ce.countExpr(bound)
			}
		}
	}
	if ctr == nil || !loopFromTo(ctr, 0) {
		return ""
	}
	return ce.countExpr(bound)
}

// countExpr canonicalises a trip-count bound; len(x) of a slice made with
// length L (directly or through the field it was stored to) becomes L.
func (ce *codecEngine) countExpr(v ssa.Value) string {
	v = stripConvert(v)
	if c, ok := v.(*ssa.Call); ok {
		if bi, ok := c.Common().Value.(*ssa.Builtin); ok && bi.Name() == "len" {
			arg := c.Common().Args[0]
			if ms := ce.madeWith(arg, c); ms != nil {
				return newExprCtx(ce.w).expr(stripConvert(ms.Len))
			}
			return "len(" + normField(newExprCtx(ce.w).expr(arg)) + ")"
		}
	}
	return newExprCtx(ce.w).expr(v)
}

// madeWith: if slice value v is (a load of a location last stored from) a MakeSlice, return it.
func (ce *codecEngine) madeWith(v ssa.Value, at ssa.Instruction) *ssa.MakeSlice {
	v = stripChangeType(v)
	switch x := v.(type) {
	case *ssa.MakeSlice:
		return x
	case *ssa.UnOp:
		if x.Op != token.MUL {
			return nil
		}
		// find stores to the same address expression in the function
		want := newExprCtx(ce.w).expr(x.X)
		var found *ssa.MakeSlice
		n := 0
		eachInstr(at.Parent(), func(in ssa.Instruction) {
			st, ok := in.(*ssa.Store)
			if !ok || newExprCtx(ce.w).expr(st.Addr) != want {
				return
			}
			// only stores from which the use can be reached count (a reset on a path that returns does not)
			if !instrReaches(st, at) {
				return
			}
			n++
			if ms, ok := stripChangeType(st.Val).(*ssa.MakeSlice); ok && dominatesInstr(st, at) {
				found = ms
			}
		})
		if n == 1 {
			return found
		}
	}
	return nil
}

func isBytes(t types.Type) bool {
	s, ok := t.Underlying().(*types.Slice)
	if !ok {
		return false
	}
	b, ok := s.Elem().Underlying().(*types.Basic)
	return ok && b.Kind() == types.Uint8
}

// ---------- decoder ----------

func (ce *codecEngine) decoder(typ string) *codecInfo {
	if ci, ok := ce.dec[typ]; ok {
		return ci
	}
	f := fn(ce.w.Lib, typ+".TakeFrom")
	ci := &codecInfo{typ: typ, fn: f}
	ce.dec[typ] = ci
	if f == nil || len(f.Blocks) == 0 || ce.busy["d"+typ] {
		return ci
	}
	ce.busy["d"+typ] = true
	defer delete(ce.busy, "d"+typ)
	src := f.Params[1]

	// offsets of byte-slice values; loop phis get base + step*ITER inside and base + step*N after the loop
	type offs struct{ in, out lin }
	memo := map[ssa.Value]offs{}
	var off func(v ssa.Value) offs
	loops := map[*ssa.Phi]*byteLoop{}
	off = func(v ssa.Value) offs {
		if o, ok := memo[v]; ok {
			return o
		}
		memo[v] = offs{} // cycle guard
		var o offs
		switch x := v.(type) {
		case *ssa.Parameter:
			if x == src {
				o = offs{linC(0), linC(0)}
			}
		case *ssa.Slice:
			b := off(x.X)
			lo := linC(0)
			if x.Low != nil {
				lo = ce.valueLin(x.Low)
			}
			o = offs{b.out.add(lo), b.out.add(lo)}
			if inLoopOf(x.Block(), x.X, loops) {
				o = offs{b.in.add(lo), b.in.add(lo)}
			}
		case *ssa.Extract:
			c, ok := x.Tuple.(*ssa.Call)
			if ok && x.Index == 0 {
				sc := c.Common().StaticCallee()
				if sc != nil && sc.Name() == "TakeFrom" && pkgOf(sc) == ce.w.Lib {
					nt := recvTypeName(sc)
					sub := ce.decoder(nt)
					b := off(c.Common().Args[1])
					base := b.out
					if inLoopOf(c.Block(), c.Common().Args[1], loops) {
						base = b.in
					}
					if sub.size.ok {
						o = offs{base.add(sub.size), base.add(sub.size)}
					}
				}
			}
		case *ssa.Phi:
			if isLoopHeader(x.Block()) && len(x.Edges) == 2 {
				var init, next ssa.Value
				for i, p := range x.Block().Preds {
					if x.Block().Dominates(p) {
						next = x.Edges[i]
					} else {
						init = x.Edges[i]
					}
				}
				if init != nil && next != nil {
					bl := &byteLoop{phi: x, init: init, next: next, count: ce.tripCount(x.Block())}
					loops[x] = bl
					base := off(init).out
					// step: offset of next relative to phi — compute with phi := 0
					memo[x] = offs{linC(0), linC(0)}
					delete(memo, next)
					st := off(next).out
					if base.ok && st.ok && st.k == 0 && base.k == 0 && bl.count != "" {
						o = offs{in: lin{c: base.c, k: st.c, sym: "ITER", ok: true}, out: base.add(lin{k: st.c, sym: bl.count, ok: true})}
					}
					// recompute dependents later
					for k := range memo {
						if k != v {
							delete(memo, k)
						}
					}
				}
			} else {
				// merge of equal offsets
				var first *offs
				same := true
				for _, e := range x.Edges {
					eo := off(e)
					if first == nil {
						first = &eo
					} else if !first.out.eq(eo.out) {
						same = false
					}
				}
				if same && first != nil {
					o = *first
				}
			}
		case *ssa.ChangeType:
			o = off(x.X)
		}
		memo[v] = o
		return o
	}

	// guards
	for _, b := range f.Blocks {
		if len(b.Instrs) == 0 {
			continue
		}
		iff, ok := b.Instrs[len(b.Instrs)-1].(*ssa.If)
		if !ok {
			continue
		}
		bo, ok := iff.Cond.(*ssa.BinOp)
		if !ok {
			continue
		}
		var lenArg ssa.Value
		var k ssa.Value
		var failSucc, passSucc *ssa.BasicBlock
		isLenBytes := func(v ssa.Value) bool {
			lc, ok := v.(*ssa.Call)
			return ok && isBuiltin(lc, "len") && isBytes(lc.Common().Args[0].Type())
		}
		if op, x, y, ok := orientCmp(bo, isLenBytes); ok {
			lenArg, k = x.(*ssa.Call).Common().Args[0], y
			switch op {
			case token.LSS: // len < K -> fail
				failSucc, passSucc = b.Succs[0], b.Succs[1]
			case token.GEQ:
				failSucc, passSucc = b.Succs[1], b.Succs[0]
			default:
				continue
			}
		} else {
			continue
		}
		if !directFailure(failSucc) {
			continue
		}
		o := off(lenArg)
		base := o.out
		if !base.ok {
			continue
		}
		g := codecGuard{total: base.add(ce.valueLin(k)), pos: iff, pass: passSucc, from: b}
		// WantedBufSize on the failing edge
		for _, in := range failSucc.Instrs {
			if st, ok := in.(*ssa.Store); ok {
				if _, fname, ok := fieldAddrOf(st.Addr); ok && fname == "WantedBufSize" {
					g.want = ce.valueLin(st.Val)
				}
			}
		}
		ci.guards = append(ci.guards, g)
	}
	guaranteeAt := func(b *ssa.BasicBlock) []lin {
		var out []lin
		for _, g := range ci.guards {
			if edgeDominates(g.from, g.pass, b) {
				out = append(out, g.total)
			}
		}
		return out
	}
	covered := func(need lin, b *ssa.BasicBlock) bool {
		for _, g := range guaranteeAt(b) {
			if need.leq(g) {
				return true
			}
		}
		return false
	}
	inLoop := func(b *ssa.BasicBlock) (*byteLoop, bool) {
		for ph, bl := range loops {
			if loopBlocks(ph.Block())[b] && b != ph.Block() {
				return bl, true
			}
		}
		return nil, false
	}
	_ = inLoop

	// reads and nested decoders
	for _, c := range callsIn(f) {
		cv, ok := c.(*ssa.Call)
		if !ok {
			continue
		}
		sc := cv.Common().StaticCallee()
		if sc == nil {
			continue
		}
		if isMethodFunc(sc, "encoding/binary", "bigEndian", sc.Name()) || isMethodFunc(sc, "encoding/binary", "littleEndian", sc.Name()) {
			width := map[string]int64{"Uint16": 2, "Uint32": 4, "Uint64": 8}[sc.Name()]
			if width == 0 {
				continue
			}
			order := "big"
			if isMethodFunc(sc, "encoding/binary", "littleEndian", sc.Name()) {
				order = "little"
			}
			arg := cv.Common().Args[len(cv.Common().Args)-1]
			o := off(arg)
			at := o.out
			il := inLoopOf(cv.Block(), arg, loops)
			if il {
				at = o.in
			}
			rd := codecRead{off: at, width: width, order: order, pos: cv, loop: il}
			rd.dest, rd.via = ce.destOf(cv)
			ci.reads = append(ci.reads, rd)
			if !at.ok {
				ci.problems = append(ci.problems, codecProblem{"R3", typ + ":read-offset", "cannot determine the offset of a read", cv})
				continue
			}
			need := at.add(linC(width))
			if il {
				need = ce.loopEnd(at, loops)
			}
			if !covered(need, cv.Block()) {
				ci.problems = append(ci.problems, codecProblem{"R3", fmt.Sprintf("%s:read@%s", typ, at), fmt.Sprintf("reads %d bytes at offset %s but the dominating length guards guarantee only %v bytes: index out of range on a truncated input", width, at, linStrs(guaranteeAt(cv.Block()))), cv})
			}
			continue
		}
		if sc.Name() == "TakeFrom" && pkgOf(sc) == ce.w.Lib && sc != f {
			nt := recvTypeName(sc)
			sub := ce.decoder(nt)
			arg := cv.Common().Args[1]
			o := off(arg)
			at := o.out
			il := inLoopOf(cv.Block(), arg, loops)
			if il {
				at = o.in
			}
			nd := codecNested{off: at, typ: nt, dest: ce.destExpr(cv.Common().Args[0], cv), loop: il, pos: cv}
			if il {
				for ph, bl := range loops {
					if loopBlocks(ph.Block())[cv.Block()] {
						nd.count = bl.count
					}
				}
			}
			ci.nested = append(ci.nested, nd)
			if !at.ok {
				ci.problems = append(ci.problems, codecProblem{"R3", typ + ":nested-offset:" + nt, "cannot determine the offset at which the nested " + nt + " is decoded", cv})
				continue
			}
			if sub.size.ok {
				need := at.add(sub.size)
				if il {
					need = ce.loopEnd(at, loops)
				}
				if !covered(need, cv.Block()) {
					ci.problems = append(ci.problems, codecProblem{"R4", fmt.Sprintf("%s:nested-unguarded:%s@%s", typ, nt, at), fmt.Sprintf("the nested %s decoder at offset %s is not covered by a length guard of this decoder (guaranteed: %v): on a truncated input it reports its own size (%s), which is not larger than what was given, so retrying with the wanted size does not terminate", nt, at, linStrs(guaranteeAt(cv.Block())), sub.size), cv})
				}
			}
		}
	}
	// guards: WantedBufSize must be the guaranteed total of the failed test
	for _, g := range ci.guards {
		if g.want.ok || g.total.ok {
			// only failures that construct a WantLargerBufferError carry want
			isWant := false
			for _, in := range failBlockOf(g).Instrs {
				if al, ok := in.(*ssa.Alloc); ok && strings.HasSuffix(al.Type().String(), "WantLargerBufferError") {
					isWant = true
				}
			}
			if !isWant {
				ci.problems = append(ci.problems, codecProblem{"R4", fmt.Sprintf("%s:short-not-want@%s", typ, g.total), "a too-short input is not answered with *WantLargerBufferError", g.pos})
				continue
			}
			if !g.want.eq(g.total) {
				ci.problems = append(ci.problems, codecProblem{"R4", fmt.Sprintf("%s:want-size@%s", typ, g.total), fmt.Sprintf("WantedBufSize is %s but the failed test requires %s bytes from the start of the message", g.want, g.total), g.pos})
			}
		}
	}
	// success returns
	idx := errResultIndex(f)
	var sizes []lin
	for _, rt := range returnsOf(f) {
		if idx >= 0 && isFailureReturn(rt) {
			continue
		}
		vals := []ssa.Value{rt.Results[0]}
		if u, ok := rt.Results[0].(*ssa.UnOp); ok {
			if _, isAlloc := u.X.(*ssa.Alloc); isAlloc {
				vals, _ = resultValues(rt, 0)
			}
		}
		for _, v := range vals {
			o := off(v)
			ci.returns = append(ci.returns, o.out)
			ci.retPos = append(ci.retPos, rt)
			sizes = append(sizes, o.out)
		}
	}
	// consumed end = furthest read / nested end
	end := linC(0)
	for _, rd := range ci.reads {
		e := rd.off.add(linC(rd.width))
		if rd.loop {
			e = ce.loopEnd(rd.off, loops)
		}
		if end.leq(e) {
			end = e
		}
	}
	for _, nd := range ci.nested {
		sub := ce.decoder(nd.typ)
		e := nd.off.add(sub.size)
		if nd.loop {
			e = ce.loopEnd(nd.off, loops)
		}
		if e.ok && end.leq(e) {
			end = e
		}
	}
	ci.size = end
	for i, s := range sizes {
		if !s.ok {
			ci.problems = append(ci.problems, codecProblem{"R3", typ + ":return-offset", "cannot determine how many bytes a success return has consumed", ci.retPos[i]})
			continue
		}
		if !s.eq(end) {
			// a success return that consumed less is acceptable only if nothing beyond it was decoded on its path (e.g. an absent-series marker); otherwise violation
			pathEnd := linC(0)
			rb := ci.retPos[i].Block()
			for _, rd := range ci.reads {
				if rd.pos.Block().Dominates(rb) {
					e := rd.off.add(linC(rd.width))
					if pathEnd.leq(e) {
						pathEnd = e
					}
				}
			}
			for _, nd := range ci.nested {
				if nd.pos.Block().Dominates(rb) && !nd.loop {
					e := nd.off.add(ce.decoder(nd.typ).size)
					if e.ok && pathEnd.leq(e) {
						pathEnd = e
					}
				}
			}
			if !s.eq(pathEnd) {
				ci.problems = append(ci.problems, codecProblem{"R3", fmt.Sprintf("%s:remainder@%s", typ, s), fmt.Sprintf("a success return hands back the input advanced by %s bytes although %s bytes were decoded on its path: the next message of a concatenation is mis-framed", s, pathEnd), ci.retPos[i]})
			}
		}
	}
	sort.SliceStable(ci.reads, func(i, j int) bool { return ci.reads[i].off.c < ci.reads[j].off.c })
	return ci
}

func failBlockOf(g codecGuard) *ssa.BasicBlock {
	for _, s := range g.from.Succs {
		if s != g.pass {
			return s
		}
	}
	return g.from
}

func linStrs(ls []lin) []string {
	var out []string
	for _, l := range ls {
		out = append(out, l.String())
	}
	return out
}

func isBuiltin(c *ssa.Call, name string) bool {
	b, ok := c.Common().Value.(*ssa.Builtin)
	return ok && b.Name() == name
}

// inLoopOf: the use block lies inside the loop whose header phi feeds v.
func inLoopOf(b *ssa.BasicBlock, v ssa.Value, loops map[*ssa.Phi]*byteLoop) bool {
	seen := map[ssa.Value]bool{}
	var has func(x ssa.Value) *ssa.Phi
	has = func(x ssa.Value) *ssa.Phi {
		if x == nil || seen[x] {
			return nil
		}
		seen[x] = true
		switch y := x.(type) {
		case *ssa.Phi:
			if _, ok := loops[y]; ok {
				return y
			}
		case *ssa.Slice:
			return has(y.X)
		case *ssa.Extract:
			if c, ok := y.Tuple.(*ssa.Call); ok && len(c.Common().Args) > 1 {
				return has(c.Common().Args[1])
			}
		case *ssa.ChangeType:
			return has(y.X)
		}
		return nil
	}
	ph := has(v)
	if ph == nil {
		return false
	}
	return loopBlocks(ph.Block())[b]
}

// loopEnd: base + step*ITER -> base + step*N (the end of the last iteration's element).
func (ce *codecEngine) loopEnd(at lin, loops map[*ssa.Phi]*byteLoop) lin {
	if !at.ok || at.sym != "ITER" {
		return at
	}
	for _, bl := range loops {
		if bl.count != "" {
			return lin{c: at.c, k: at.k, sym: bl.count, ok: true}
		}
	}
	return lin{}
}

// destOf follows a decoded integer to where it is stored.
func (ce *codecEngine) destOf(v ssa.Value) (dest, via string) {
	seen := map[ssa.Value]bool{}
	var rec func(x ssa.Value) string
	rec = func(x ssa.Value) string {
		if seen[x] {
			return ""
		}
		seen[x] = true
		refs := x.Referrers()
		if refs == nil {
			return ""
		}
		for _, r := range *refs {
			switch y := r.(type) {
			case *ssa.Store:
				if y.Val == x {
					return normField(newExprCtx(ce.w).expr(y.Addr))
				}
			case *ssa.Convert:
				if bt, ok := y.Type().Underlying().(*types.Basic); ok && bt.Info()&types.IsFloat != 0 {
					if xt, ok := x.Type().Underlying().(*types.Basic); ok && xt.Info()&types.IsInteger != 0 {
						via = "numeric-conversion"
					}
				}
				if d := rec(y); d != "" {
					return d
				}
			case *ssa.ChangeType:
				if d := rec(y); d != "" {
					return d
				}
			case *ssa.Call:
				if sc := y.Common().StaticCallee(); sc != nil && (isPkgFunc(sc, "math", "Float32frombits") || isPkgFunc(sc, "math", "Float64frombits")) {
					via = "math." + sc.Name()
					if d := rec(y); d != "" {
						return d
					}
				}
			}
		}
		return ""
	}
	dest = rec(v)
	if dest == "" {
		dest = "(local)"
	}
	return dest, via
}

// ---------- encoder ----------

func (ce *codecEngine) encoder(typ string) *codecInfo {
	if ci, ok := ce.enc[typ]; ok {
		return ci
	}
	f := fn(ce.w.Lib, typ+".AppendTo")
	ci := &codecInfo{typ: typ, fn: f}
	ce.enc[typ] = ci
	if f == nil || len(f.Blocks) == 0 {
		return ci
	}
	dst := f.Params[1]
	type offs struct{ in, out lin }
	memo := map[ssa.Value]offs{}
	loops := map[*ssa.Phi]*byteLoop{}
	var off func(v ssa.Value) offs
	off = func(v ssa.Value) offs {
		if o, ok := memo[v]; ok {
			return o
		}
		memo[v] = offs{}
		var o offs
		switch x := v.(type) {
		case *ssa.Parameter:
			if x == dst {
				o = offs{linC(0), linC(0)}
			}
		case *ssa.Call:
			if isBuiltin(x, "append") {
				b := off(x.Common().Args[0])
				base := b.out
				if encInLoop(x.Block(), x.Common().Args[0], loops) {
					base = b.in
				}
				w := appendedWidth(x.Common().Args[1])
				if w > 0 {
					o = offs{base.add(linC(w)), base.add(linC(w))}
				}
			} else if sc := x.Common().StaticCallee(); sc != nil && sc.Name() == "AppendTo" && pkgOf(sc) == ce.w.Lib {
				sub := ce.encoder(recvTypeName(sc))
				b := off(x.Common().Args[1])
				base := b.out
				if encInLoop(x.Block(), x.Common().Args[1], loops) {
					base = b.in
				}
				if sub.size.ok {
					o = offs{base.add(sub.size), base.add(sub.size)}
				}
			}
		case *ssa.Phi:
			if isLoopHeader(x.Block()) && len(x.Edges) == 2 {
				var init, next ssa.Value
				for i, p := range x.Block().Preds {
					if x.Block().Dominates(p) {
						next = x.Edges[i]
					} else {
						init = x.Edges[i]
					}
				}
				if init != nil && next != nil {
					bl := &byteLoop{phi: x, init: init, next: next, count: ce.tripCount(x.Block())}
					loops[x] = bl
					base := off(init).out
					memo[x] = offs{linC(0), linC(0)}
					st := off(next).out
					if base.ok && st.ok && st.k == 0 && base.k == 0 && bl.count != "" {
						o = offs{in: lin{c: base.c, k: st.c, sym: "ITER", ok: true}, out: base.add(lin{k: st.c, sym: bl.count, ok: true})}
					}
					for k := range memo {
						if k != v {
							delete(memo, k)
						}
					}
				}
			}
		case *ssa.ChangeType:
			o = off(x.X)
		}
		memo[v] = o
		return o
	}
	for _, c := range callsIn(f) {
		cv, ok := c.(*ssa.Call)
		if !ok {
			continue
		}
		if isBuiltin(cv, "append") {
			w := appendedWidth(cv.Common().Args[1])
			b := off(cv.Common().Args[0])
			at := b.out
			il := encInLoop(cv.Block(), cv.Common().Args[0], loops)
			if il {
				at = b.in
			}
			rd := codecRead{off: at, width: w, pos: cv, loop: il}
			// content: the last PutUintN into the same array before this append
			if sl, ok := cv.Common().Args[1].(*ssa.Slice); ok {
				var put *ssa.Call
				for _, in := range cv.Block().Instrs {
					if in == ssa.Instruction(cv) {
						break
					}
					if pc, ok := in.(*ssa.Call); ok {
						if psc := pc.Common().StaticCallee(); psc != nil && strings.HasPrefix(psc.Name(), "PutUint") {
							if ps, ok := pc.Common().Args[len(pc.Common().Args)-2].(*ssa.Slice); ok && ps.X == sl.X {
								put = pc
							}
						}
					}
				}
				if put != nil {
					psc := put.Common().StaticCallee()
					rd.order = "big"
					if isMethodFunc(psc, "encoding/binary", "littleEndian", psc.Name()) {
						rd.order = "little"
					}
					pw := map[string]int64{"PutUint16": 2, "PutUint32": 4, "PutUint64": 8}[psc.Name()]
					if pw != w {
						ci.problems = append(ci.problems, codecProblem{"R1", fmt.Sprintf("%s:enc-width@%s", typ, at), fmt.Sprintf("%d bytes are appended but %s filled %d", w, psc.Name(), pw), cv})
					}
					val := put.Common().Args[len(put.Common().Args)-1]
					rd.dest, rd.via = ce.srcOf(val)
					rd.dest = ce.normGetters(rd.dest)
				} else {
					ci.problems = append(ci.problems, codecProblem{"R1", fmt.Sprintf("%s:enc-content@%s", typ, at), "appended bytes are not produced by binary.BigEndian.PutUintN", cv})
				}
			}
			ci.reads = append(ci.reads, rd)
			continue
		}
		if sc := cv.Common().StaticCallee(); sc != nil && sc.Name() == "AppendTo" && pkgOf(sc) == ce.w.Lib && sc != f {
			b := off(cv.Common().Args[1])
			at := b.out
			il := encInLoop(cv.Block(), cv.Common().Args[1], loops)
			if il {
				at = b.in
			}
			nd := codecNested{off: at, typ: recvTypeName(sc), dest: ce.normGetters(normField(newExprCtx(ce.w).expr(cv.Common().Args[0]))), loop: il, pos: cv}
			if il {
				for ph, bl := range loops {
					if loopBlocks(ph.Block())[cv.Block()] {
						nd.count = ce.normGetters(bl.count)
					}
				}
			}
			ci.nested = append(ci.nested, nd)
		}
	}
	for _, rt := range returnsOf(f) {
		o := off(rt.Results[0])
		ci.returns = append(ci.returns, o.out)
		ci.retPos = append(ci.retPos, rt)
	}
	if len(ci.returns) == 1 {
		ci.size = ci.returns[0]
	}
	sort.SliceStable(ci.reads, func(i, j int) bool { return ci.reads[i].off.c < ci.reads[j].off.c })
	return ci
}

func encInLoop(b *ssa.BasicBlock, v ssa.Value, loops map[*ssa.Phi]*byteLoop) bool {
	seen := map[ssa.Value]bool{}
	var has func(x ssa.Value) *ssa.Phi
	has = func(x ssa.Value) *ssa.Phi {
		if x == nil || seen[x] {
			return nil
		}
		seen[x] = true
		switch y := x.(type) {
		case *ssa.Phi:
			if _, ok := loops[y]; ok {
				return y
			}
		case *ssa.Call:
			if isBuiltin(y, "append") {
				return has(y.Common().Args[0])
			}
			if len(y.Common().Args) > 1 {
				return has(y.Common().Args[1])
			}
		case *ssa.ChangeType:
			return has(y.X)
		}
		return nil
	}
	ph := has(v)
	return ph != nil && loopBlocks(ph.Block())[b]
}

// appendedWidth: append(dst, b[:]...) with b a [N]byte array.
func appendedWidth(v ssa.Value) int64 {
	sl, ok := v.(*ssa.Slice)
	if !ok || sl.Low != nil || sl.High != nil {
		return 0
	}
	pt, ok := sl.X.Type().Underlying().(*types.Pointer)
	if !ok {
		return 0
	}
	at, ok := pt.Elem().Underlying().(*types.Array)
	if !ok {
		return 0
	}
	return at.Len()
}

// srcOf renders the value written by the encoder and the bits conversion used.
func (ce *codecEngine) srcOf(v ssa.Value) (src, via string) {
	for {
		switch x := v.(type) {
		case *ssa.Convert:
			if xt, ok := x.X.Type().Underlying().(*types.Basic); ok && xt.Info()&types.IsFloat != 0 {
				if bt, ok := x.Type().Underlying().(*types.Basic); ok && bt.Info()&types.IsInteger != 0 {
					via = "numeric-conversion"
				}
			}
			v = x.X
			continue
		case *ssa.ChangeType:
			v = x.X
			continue
		case *ssa.Call:
			if sc := x.Common().StaticCallee(); sc != nil && (isPkgFunc(sc, "math", "Float32bits") || isPkgFunc(sc, "math", "Float64bits")) {
				via = "math." + sc.Name()
				v = x.Common().Args[0]
				continue
			}
		}
		break
	}
	return normField(newExprCtx(ce.w).expr(v)), via
}

// instrReaches: b can execute after a (same block later, or a's block reaches b's block in the CFG).
func instrReaches(a, b ssa.Instruction) bool {
	if a.Block() == b.Block() {
		ia, ib := -1, -1
		for i, in := range a.Block().Instrs {
			if in == a {
				ia = i
			}
			if in == b {
				ib = i
			}
		}
		if ia < ib {
			return true
		}
	}
	seen := map[*ssa.BasicBlock]bool{}
	stack := append([]*ssa.BasicBlock{}, a.Block().Succs...)
	for len(stack) > 0 {
		x := stack[len(stack)-1]
		stack = stack[:len(stack)-1]
		if seen[x] {
			continue
		}
		seen[x] = true
		if x == b.Block() {
			return true
		}
		stack = append(stack, x.Succs...)
	}
	return false
}

func mirrorOp(op token.Token) token.Token {
	switch op {
	case token.LSS:
		return token.GTR
	case token.GTR:
		return token.LSS
	case token.LEQ:
		return token.GEQ
	case token.GEQ:
		return token.LEQ
	}
	return op
}

// orientCmp returns the comparison bo with the operand satisfying left on the left-hand side
// (`K > len(x)` is read as `len(x) < K`).
func orientCmp(bo *ssa.BinOp, left func(ssa.Value) bool) (token.Token, ssa.Value, ssa.Value, bool) {
	if !isCmp(bo.Op) {
		return 0, nil, nil, false
	}
	if left(bo.X) {
		return bo.Op, bo.X, bo.Y, true
	}
	if left(bo.Y) {
		return mirrorOp(bo.Op), bo.Y, bo.X, true
	}
	return 0, nil, nil, false
}

// destExpr renders the location a nested decoder fills. An element of a slice that was made locally and
// stored (once, before the use) to a location L is rendered as an element of L: `s := make(T, n); *p = s; s[i]`
// is `(*p)[i]`.
func (ce *codecEngine) destExpr(v ssa.Value, at ssa.Instruction) string {
	if ia, ok := v.(*ssa.IndexAddr); ok {
		if ms, ok := stripChangeType(ia.X).(*ssa.MakeSlice); ok {
			var addr ssa.Value
			n := 0
			if refs := ms.Referrers(); refs != nil {
				for _, r := range *refs {
					if st, ok := r.(*ssa.Store); ok && stripChangeType(st.Val) == ssa.Value(ms) && dominatesInstr(st, at) {
						addr = st.Addr
						n++
					}
				}
			}
			// the stored value may be a ChangeType of the MakeSlice
			if n == 0 {
				eachInstr(at.Parent(), func(in ssa.Instruction) {
					if st, ok := in.(*ssa.Store); ok && stripChangeType(st.Val) == ssa.Value(ms) && dominatesInstr(st, at) {
						addr = st.Addr
						n++
					}
				})
			}
			if n == 1 {
				e := newExprCtx(ce.w)
				return normField(e.expr(addr)) + "[" + e.expr(ia.Index) + "]"
			}
		}
	}
	return normField(newExprCtx(ce.w).expr(v))
}
