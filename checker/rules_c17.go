package main

func ruleGoroutines(w *World, r *Report, rule string) {}
