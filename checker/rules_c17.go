package main

import (
	"fmt"
	"go/token"
	"go/types"
	"sort"
	"strings"

	"golang.org/x/tools/go/ssa"
)

func init() {
	register(&propertyDef{
		ID: "C17",
		Explanation: "Decides race-freedom structurally: an effects analysis (write summaries per function: through which parameters, or to globals/unknown memory, a function may write, propagated bottom-up over the call graph) shows that Fetch, FetchFromArchive and GetAllRawUnsortedPoints write nothing reachable from their (shared) receiver, and that no HTTP handler writes anything reachable from the shared *app or any package variable; the page cache's exported methods take its mutex first and release it by defer, unexported ones are reached only from those; " +
			"goroutine bodies started with errgroup write only captured variables that no sibling touches, bodies started in a loop write only elements indexed by a per-iteration copy of the loop variable, results are collected by index (not by append under a lock, which would make the order schedule-dependent), and the parent touches them only after Wait; package variables are written only during initialisation. " +
			"Not decided: equality of concurrent and sequential results as such (follows from the absence of shared writes under the trusted base).",
		Run: rulesC17,
	})
}

// ---------- E-effects ----------

type rootKind int

const (
	rkFresh rootKind = iota
	rkParam
	rkGlobal
	rkUnknown
)

type memRoot struct {
	kind  rootKind
	param int
	name  string
}

type effects struct {
	w          *World
	writesP    map[*ssa.Function]map[int]string // param index -> witness
	writesG    map[*ssa.Function]string         // non-empty: writes global/unknown memory (witness)
	inProgress map[*ssa.Function]bool
	done       map[*ssa.Function]bool
}

func newEffects(w *World) *effects {
	return &effects{w: w, writesP: map[*ssa.Function]map[int]string{}, writesG: map[*ssa.Function]string{}, inProgress: map[*ssa.Function]bool{}, done: map[*ssa.Function]bool{}}
}

// rootsOf: which memory regions may address/pointer v point into.
func (e *effects) rootsOf(v ssa.Value, seen map[ssa.Value]bool) []memRoot {
	if v == nil || seen[v] {
		return nil
	}
	seen[v] = true
	switch x := v.(type) {
	case *ssa.Alloc, *ssa.MakeSlice, *ssa.MakeMap, *ssa.MakeChan, *ssa.MakeInterface, *ssa.MakeClosure:
		if mi, ok := v.(*ssa.MakeInterface); ok {
			return e.rootsOf(mi.X, seen)
		}
		return []memRoot{{kind: rkFresh}}
	case *ssa.Const:
		return []memRoot{{kind: rkFresh}}
	case *ssa.Parameter:
		f := x.Parent()
		for i, p := range f.Params {
			if p == x {
				return []memRoot{{kind: rkParam, param: i}}
			}
		}
	case *ssa.FreeVar:
		// a local of the enclosing function captured by a closure that is only ever called by that function
		// (never handed to go / errgroup / stored / returned) is as private as any other local
		if al, ok := bindingOf(x).(*ssa.Alloc); ok && al.Parent() == x.Parent().Parent() && calledOnlyByCreator(x.Parent()) {
			return []memRoot{{kind: rkFresh}}
		}
		// otherwise a captured variable is shared with the parent and siblings
		return []memRoot{{kind: rkUnknown, name: "captured variable " + x.Name()}}
	case *ssa.Global:
		return []memRoot{{kind: rkGlobal, name: x.Pkg.Pkg.Name() + "." + x.Name()}}
	case *ssa.FieldAddr:
		return e.rootsOf(x.X, seen)
	case *ssa.IndexAddr:
		return e.rootsOf(x.X, seen)
	case *ssa.Field:
		return e.rootsOf(x.X, seen)
	case *ssa.Index:
		return e.rootsOf(x.X, seen)
	case *ssa.Slice:
		return e.rootsOf(x.X, seen)
	case *ssa.ChangeType:
		return e.rootsOf(x.X, seen)
	case *ssa.Convert:
		return e.rootsOf(x.X, seen)
	case *ssa.ChangeInterface:
		return e.rootsOf(x.X, seen)
	case *ssa.TypeAssert:
		return e.rootsOf(x.X, seen)
	case *ssa.Extract:
		// one result of a module function: the roots of that result only (the error beside it is often a package
		// sentinel, and a slice returned beside it does not point into the sentinel)
		if cv, ok := x.Tuple.(*ssa.Call); ok {
			if sc := cv.Common().StaticCallee(); sc != nil && e.w.inModuleOrFB(sc) && len(sc.Blocks) > 0 {
				var out []memRoot
				for _, rt := range returnsOf(sc) {
					if x.Index >= len(rt.Results) {
						continue
					}
					res := rt.Results[x.Index]
					if !pointerLike(res.Type()) {
						continue
					}
					for _, rr := range e.rootsOf(res, map[ssa.Value]bool{}) {
						switch rr.kind {
						case rkParam:
							if rr.param < len(cv.Common().Args) {
								out = append(out, e.rootsOf(cv.Common().Args[rr.param], seen)...)
							}
						default:
							out = append(out, rr)
						}
					}
				}
				if len(out) == 0 {
					out = []memRoot{{kind: rkFresh}}
				}
				return out
			}
		}
		return e.rootsOf(x.Tuple, seen)
	case *ssa.Phi:
		var out []memRoot
		for _, ed := range x.Edges {
			out = append(out, e.rootsOf(ed, seen)...)
		}
		return out
	case *ssa.UnOp:
		if x.Op == token.MUL {
			// a pointer/slice loaded from memory: it points into whatever that memory's owner can reach
			if !pointerLike(x.Type()) {
				return []memRoot{{kind: rkFresh}}
			}
			if fv, ok := x.X.(*ssa.FreeVar); ok {
				if al, ok := bindingOf(fv).(*ssa.Alloc); ok && al.Parent() == fv.Parent().Parent() && calledOnlyByCreator(fv.Parent()) {
					// pointer held in a captured local: what the creator stored there (its parameters are not ours)
					var out []memRoot
					for _, st := range storesTo(al) {
						for _, rr := range e.rootsOf(st.Val, seen) {
							if rr.kind == rkParam {
								rr = memRoot{kind: rkUnknown, name: "memory reachable from a parameter of the enclosing function (captured " + fv.Name() + ")"}
							}
							out = append(out, rr)
						}
					}
					if len(out) == 0 {
						out = []memRoot{{kind: rkFresh}}
					}
					return out
				}
			}
			if al, ok := x.X.(*ssa.Alloc); ok {
				// local variable: union of what was stored
				var out []memRoot
				for _, st := range storesTo(al) {
					out = append(out, e.rootsOf(st.Val, seen)...)
				}
				if len(out) == 0 {
					out = []memRoot{{kind: rkFresh}}
				}
				return out
			}
			return e.rootsOf(x.X, seen)
		}
		return []memRoot{{kind: rkFresh}}
	case *ssa.Call:
		// result of a call: fresh for allocators and module functions returning fresh memory; otherwise reachable from its arguments
		if bi, ok := x.Common().Value.(*ssa.Builtin); ok {
			if bi.Name() == "append" {
				return e.rootsOf(x.Common().Args[0], seen)
			}
			return []memRoot{{kind: rkFresh}}
		}
		var out []memRoot
		sc := x.Common().StaticCallee()
		if sc != nil && e.w.inModuleOrFB(sc) {
			// returns memory reachable from its pointer-like arguments, or fresh
			for _, rt := range returnsOf(sc) {
				for _, res := range rt.Results {
					if !pointerLike(res.Type()) {
						continue
					}
					for _, rr := range e.rootsOf(res, map[ssa.Value]bool{}) {
						switch rr.kind {
						case rkParam:
							if rr.param < len(x.Common().Args) {
								out = append(out, e.rootsOf(x.Common().Args[rr.param], seen)...)
							}
						default:
							out = append(out, rr)
						}
					}
				}
			}
			if len(out) == 0 {
				out = []memRoot{{kind: rkFresh}}
			}
			return out
		}
		for _, a := range x.Common().Args {
			if pointerLike(a.Type()) {
				out = append(out, e.rootsOf(a, seen)...)
			}
		}
		if x.Common().IsInvoke() {
			out = append(out, e.rootsOf(x.Common().Value, seen)...)
		}
		if len(out) == 0 {
			out = []memRoot{{kind: rkFresh}}
		}
		return out
	case *ssa.Lookup, *ssa.Next, *ssa.Range:
		return []memRoot{{kind: rkFresh}}
	case *ssa.BinOp:
		return []memRoot{{kind: rkFresh}}
	case *ssa.Function, *ssa.Builtin:
		return []memRoot{{kind: rkFresh}}
	}
	return []memRoot{{kind: rkUnknown, name: fmt.Sprintf("%T", v)}}
}

func pointerLike(t types.Type) bool {
	switch u := t.Underlying().(type) {
	case *types.Pointer, *types.Slice, *types.Map, *types.Chan, *types.Interface, *types.Signature:
		return true
	case *types.Struct:
		for i := 0; i < u.NumFields(); i++ {
			if pointerLike(u.Field(i).Type()) {
				return true
			}
		}
	case *types.Tuple:
		for i := 0; i < u.Len(); i++ {
			if pointerLike(u.At(i).Type()) {
				return true
			}
		}
	}
	return false
}

func (e *effects) note(f *ssa.Function, roots []memRoot, witness string) {
	for _, rt := range roots {
		switch rt.kind {
		case rkParam:
			if e.writesP[f] == nil {
				e.writesP[f] = map[int]string{}
			}
			if _, ok := e.writesP[f][rt.param]; !ok {
				e.writesP[f][rt.param] = witness
			}
		case rkGlobal, rkUnknown:
			if e.writesG[f] == "" {
				e.writesG[f] = witness + " (" + rt.name + ")"
			}
		}
	}
}

// std functions that write through their pointer/slice arguments (index of args written); everything else in std is treated as not writing caller-visible memory.
func stdWrites(sc *ssa.Function) []int {
	p := pkgOf(sc)
	if p == nil {
		return nil
	}
	path := p.Pkg.Path()
	switch {
	case path == "encoding/binary" && strings.HasPrefix(sc.Name(), "Put"):
		return []int{1}
	case path == "sort":
		return []int{0}
	case path == "io/ioutil" || path == "io":
		return nil
	case path == "math/rand" && sc.Signature.Recv() != nil:
		return []int{0}
	case path == "strings" && isMethodFunc(sc, "strings", "Builder", sc.Name()):
		return []int{0}
	case path == "bufio" || path == "bytes":
		if sc.Signature.Recv() != nil {
			return []int{0}
		}
	case path == "flag" && sc.Signature.Recv() != nil:
		return []int{0}
	case path == "sync" || path == "golang.org/x/sync/errgroup":
		return nil // synchronisation objects: their own discipline
	case path == "net/http" && sc.Signature.Recv() != nil:
		return []int{0}
	case path == "os" && sc.Signature.Recv() != nil && (sc.Name() == "Read" || sc.Name() == "ReadAt"):
		return []int{1}
	}
	return nil
}

func (e *effects) analyze(f *ssa.Function) {
	if e.done[f] || e.inProgress[f] || len(f.Blocks) == 0 {
		return
	}
	e.inProgress[f] = true
	defer func() { delete(e.inProgress, f); e.done[f] = true }()
	eachInstr(f, func(in ssa.Instruction) {
		switch x := in.(type) {
		case *ssa.Store:
			if _, isAlloc := x.Addr.(*ssa.Alloc); isAlloc {
				return
			}
			e.note(f, e.rootsOf(x.Addr, map[ssa.Value]bool{}), "store at "+e.w.instrPos(x))
		case *ssa.MapUpdate:
			e.note(f, e.rootsOf(x.Map, map[ssa.Value]bool{}), "map update at "+e.w.instrPos(x))
		case *ssa.Send:
			e.note(f, e.rootsOf(x.Chan, map[ssa.Value]bool{}), "channel send at "+e.w.instrPos(x))
		case ssa.CallInstruction:
			cc := x.Common()
			if bi, ok := cc.Value.(*ssa.Builtin); ok {
				if bi.Name() == "copy" || bi.Name() == "delete" || bi.Name() == "clear" {
					e.note(f, e.rootsOf(cc.Args[0], map[ssa.Value]bool{}), bi.Name()+" at "+e.w.instrPos(x))
				}
				if bi.Name() == "append" {
					// may write into the backing array of arg 0 when capacity allows
					e.note(f, e.rootsOf(cc.Args[0], map[ssa.Value]bool{}), "append at "+e.w.instrPos(x))
				}
				return
			}
			callees := e.w.calleesOfCall(x)
			if len(callees) == 0 {
				// unresolved dynamic call (function value): assume it may write through its pointer arguments
				for _, a := range cc.Args {
					if pointerLike(a.Type()) {
						e.note(f, e.rootsOf(a, map[ssa.Value]bool{}), "dynamic call at "+e.w.instrPos(x))
					}
				}
				return
			}
			for _, g := range callees {
				if e.w.inModule(g) {
					e.analyze(g)
					args := cc.Args
					if cc.IsInvoke() {
						args = append([]ssa.Value{cc.Value}, cc.Args...)
					}
					for pi, wit := range e.writesP[g] {
						if pi < len(args) {
							e.note(f, e.rootsOf(args[pi], map[ssa.Value]bool{}), "via "+funcName(g)+": "+wit)
						}
					}
					if wg := e.writesG[g]; wg != "" && e.writesG[f] == "" {
						e.writesG[f] = "via " + funcName(g) + ": " + wg
					}
					// closures write through their captured variables: attribute to the creator
					continue
				}
				if pkgOf(g) == e.w.FB {
					// the page cache serialises itself (rule C17.R2); ReadAt writes its destination slice
					if g.Name() == "ReadAt" && len(cc.Args) > 1 {
						e.note(f, e.rootsOf(cc.Args[1], map[ssa.Value]bool{}), "FileBuffer.ReadAt into its destination at "+e.w.instrPos(x))
					}
					continue
				}
				for _, pi := range stdWrites(g) {
					args := cc.Args
					if pi < len(args) {
						e.note(f, e.rootsOf(args[pi], map[ssa.Value]bool{}), funcName(g)+" at "+e.w.instrPos(x))
					}
				}
			}
		}
	})
	// closures created here: their writes to captured variables are writes of f to its own locals (fresh) unless the captured thing is param-derived
	for _, af := range f.AnonFuncs {
		e.analyze(af)
	}
}

// ---------- rules ----------

func rulesC17(w *World, r *Report) {
	e := newEffects(w)
	r.Rule("C17.R1", "effects: the read-path roots Whisper.Fetch, FetchFromArchive, GetAllRawUnsortedPoints (and everything they call in the module) write nothing reachable from their receiver and no global/unknown memory", 3)
	for _, name := range []string{"Whisper.Fetch", "Whisper.FetchFromArchive", "Whisper.GetAllRawUnsortedPoints"} {
		f := fn(w.Lib, name)
		if f == nil {
			r.Undecided("C17.R1", name, "-", "read-path root not found")
			continue
		}
		e.analyze(f)
		if wit, bad := e.writesP[f][0]; bad {
			r.Violate("C17.R1", name+":writes-receiver", w.pos(f.Pos()), "the read path writes memory reachable from the shared handle: "+wit+" — concurrent fetches on one handle race")
		} else if wg := e.writesG[f]; wg != "" {
			r.Violate("C17.R1", name+":writes-global", w.pos(f.Pos()), "the read path writes shared memory: "+wg)
		} else {
			r.OK("C17.R1", name, w.pos(f.Pos()), "writes only memory allocated by the call itself")
		}
	}

	r.Rule("C17.R2", "lockset (dependency): every exported FileBuffer method locks b.mu first and defers the unlock before touching any other field; unexported methods that touch fields are called only from FileBuffer methods", 4)
	fbType := w.FB.Type("FileBuffer")
	if fbType == nil {
		r.Undecided("C17.R2", "FileBuffer", "-", "type not found")
	} else {
		ms := w.Prog.MethodSets.MethodSet(types.NewPointer(fbType.Type()))
		var methods []*ssa.Function
		for i := 0; i < ms.Len(); i++ {
			if m := w.Prog.MethodValue(ms.At(i)); m != nil && len(m.Blocks) > 0 {
				methods = append(methods, m)
			}
		}
		isMethod := map[*ssa.Function]bool{}
		for _, m := range methods {
			isMethod[m] = true
		}
		for _, m := range methods {
			exported := token.IsExported(m.Name())
			key := "FileBuffer." + m.Name()
			if exported {
				// entry block: Lock call, then Defer Unlock, before any FieldAddr other than mu
				okLock, okDefer, early := false, false, ""
				for _, in := range m.Blocks[0].Instrs {
					switch x := in.(type) {
					case *ssa.Call:
						if isMethodCall(x, "sync", "Mutex", "Lock") && !okLock {
							okLock = true
							continue
						}
					case *ssa.Defer:
						if isMethodCall(x, "sync", "Mutex", "Unlock") && okLock {
							okDefer = true
							continue
						}
					case *ssa.FieldAddr:
						_, fname, _ := fieldAddrOf(x)
						if fname != "mu" && !(okLock && okDefer) && early == "" {
							early = fname
						}
					}
					if okLock && okDefer {
						break
					}
				}
				r.Check(okLock && okDefer && early == "", "C17.R2", key, w.pos(m.Pos()), "mu.Lock(); defer mu.Unlock() first", "exported FileBuffer method does not take the mutex (Lock + deferred Unlock) before touching field "+early+": concurrent page reads race")
			} else {
				bad := ""
				for _, ed := range w.callers(m) {
					if !isMethod[ed.Caller.Func] {
						bad = funcName(ed.Caller.Func)
					}
				}
				r.Check(bad == "", "C17.R2", key, w.pos(m.Pos()), "reached only from (lock-holding) FileBuffer methods", "unexported FileBuffer method is called from "+bad+" outside the lock discipline")
			}
		}
	}

	ruleGoroutines(w, r, "C17.R3")

	r.Rule("C17.R4", "effects: no HTTP handler writes memory reachable from the shared *app receiver or any global/unknown memory (per-request objects w and r may be written)", 5)
	for _, h := range httpHandlers(w) {
		e.analyze(h)
		key := funcName(h)
		if wit, bad := e.writesP[h][0]; bad && h.Signature.Recv() != nil {
			r.Violate("C17.R4", key+":writes-app", w.pos(h.Pos()), "the handler writes state shared by all requests: "+wit)
		} else if wg := e.writesG[h]; wg != "" {
			r.Violate("C17.R4", key+":writes-global", w.pos(h.Pos()), "the handler writes shared memory: "+wg)
		} else {
			r.OK("C17.R4", key, w.pos(h.Pos()), "stateless: writes only per-request and freshly allocated memory")
		}
		// state of the whole process is shared by all requests too: no module function a handler reaches changes the
		// working directory, the environment, the umask or a package-level default of the standard library
		{
			bad := ""
			var scope []*ssa.Function
			for g := range moduleReachable(w, []*ssa.Function{h}, nil) {
				scope = append(scope, g)
			}
			sort.Slice(scope, func(i, j int) bool { return funcName(scope[i]) < funcName(scope[j]) })
			for _, g := range scope {
				for _, c := range callsIn(g) {
					sc := c.Common().StaticCallee()
					if sc == nil || sc.Pkg == nil {
						continue
					}
					pth, nm := sc.Pkg.Pkg.Path(), sc.Name()
					switch {
					case pth == "os" && (nm == "Chdir" || nm == "Setenv" || nm == "Unsetenv" || nm == "Clearenv"),
						pth == "syscall" && (nm == "Chdir" || nm == "Umask" || nm == "Setenv" || nm == "Chroot"),
						pth == "log" && (nm == "SetOutput" || nm == "SetFlags" || nm == "SetPrefix") && sc.Signature.Recv() == nil,
						pth == "time" && nm == "LoadLocation" && false:
						if bad == "" {
							bad = pth + "." + nm + " at " + w.instrPos(c)
						}
					}
				}
			}
			r.Check(bad == "", "C17.R4", key+":process-state", w.pos(h.Pos()), fmt.Sprintf("%d functions reachable, none changes process-wide state", len(scope)), "the handler reaches "+bad+": the working directory (environment, umask) belongs to every request being served, so a request that overlaps this one resolves its paths somewhere else")
		}
		// a field of the shared *app handed by address to code outside the module (a cache, a pool, a singleflight
		// group, a mutex-protected map): state that outlives the request, whatever the callee does with it
		if h.Signature.Recv() != nil {
			for _, g := range withLiterals(h) {
				for _, c := range callsIn(g) {
					sc := c.Common().StaticCallee()
					if sc != nil && w.inModule(sc) {
						continue
					}
					for _, a := range c.Common().Args {
						fa, ok := a.(*ssa.FieldAddr)
						if !ok {
							continue
						}
						base := fa.X
						if u, ok := base.(*ssa.UnOp); ok {
							base = u.X
						}
						isApp := base == ssa.Value(h.Params[0])
						if fv, ok := base.(*ssa.FreeVar); ok && strings.Contains(fv.Type().String(), "app") {
							isApp = true
						}
						if isApp {
							name := "a call"
							if sc != nil {
								name = funcName(sc)
							} else if c.Common().IsInvoke() {
								name = c.Common().Method.Name()
							}
							r.Violate("C17.R4", key+":shares-app-state:"+name, w.instrPos(c), "the handler hands a field of the shared app to "+name+" by address: state kept there is shared by concurrent and later requests, which then no longer return what they would return alone")
						}
					}
				}
			}
		}
	}

	r.Rule("C17.R5", "package variables of the module are stored only by package initialisers, main.run/runSubcommand (start-up) — never on a read, command or handler path", 1)
	n := 0
	for _, f := range w.modFuncs {
		eachInstr(f, func(in ssa.Instruction) {
			st, ok := in.(*ssa.Store)
			if !ok {
				return
			}
			g, ok := st.Addr.(*ssa.Global)
			if !ok {
				return
			}
			n++
			okSite := f.Name() == "init" || strings.HasPrefix(f.Name(), "init#") || funcName(f) == "main.run" || funcName(f) == "main.runSubcommand" || (f.Parent() != nil && (funcName(f.Parent()) == "main.run"))
			r.Check(okSite, "C17.R5", "global-store:"+g.Name()+"@"+funcName(f), w.instrPos(st), "initialisation-time store", "package variable "+g.Pkg.Pkg.Name()+"."+g.Name()+" is written at run time in "+funcName(f)+": concurrent requests/fetches race on it")
		})
	}
	if n == 0 {
		r.OKTrivial("C17.R5", "global-stores", "-", "no stores to package variables")
	}
}

// ruleGoroutines: C17.R3
func ruleGoroutines(w *World, r *Report, rule string) {
	r.Rule(rule, "goroutine bodies passed to (*errgroup.Group).Go: the captured variables a body writes are written/read by no sibling body; a body created inside a loop writes only elements captured[idx] where idx is a per-iteration copy of the loop variable (never the variable itself, an append, or a map); the parent uses written variables only after Wait()", 9)
	for _, f := range cmdFuncs(w) {
		type lit struct {
			fn      *ssa.Function
			mc      *ssa.MakeClosure
			factory *ssa.MakeClosure // the literal that built this body (closure factory), or nil
			goCall  ssa.CallInstruction
			inLoop  bool
			writes  map[*ssa.Alloc]string // captured alloc -> how ("var", "elem")
			reads   map[*ssa.Alloc]bool
		}
		var lits []*lit
		var wait ssa.CallInstruction
		for _, c := range callsIn(f) {
			if isMethodCall(c, "golang.org/x/sync/errgroup", "Group", "Wait") {
				wait = c
			}
			if isMethodCall(c, "golang.org/x/sync/errgroup", "Group", "TryGo") {
				r.Violate(rule, funcName(f)+":started", w.instrPos(c), "a worker is handed to TryGo, which does not start it when the group's limit is reached and says so only in a result nobody reads: the slot that worker was to fill stays empty (a nil header or series the parent then uses)")
				continue
			}
			if !isMethodCall(c, "golang.org/x/sync/errgroup", "Group", "Go") {
				continue
			}
			mc, ok := c.Common().Args[1].(*ssa.MakeClosure)
			var factory *ssa.MakeClosure
			if !ok {
				// a closure factory: eg.Go(worker(i)) where worker is a local literal whose single return is a literal
				if call, isCall := c.Common().Args[1].(*ssa.Call); isCall {
					if mc1, ok1 := call.Call.Value.(*ssa.MakeClosure); ok1 {
						if rets := returnsOf(mc1.Fn.(*ssa.Function)); len(rets) == 1 && len(rets[0].Results) == 1 {
							if mc2, ok2 := rets[0].Results[0].(*ssa.MakeClosure); ok2 {
								mc, factory, ok = mc2, mc1, true
							}
						}
					}
				}
			}
			if !ok {
				r.Undecided(rule, funcName(f)+":go-arg", w.instrPos(c), "errgroup.Go is not given a function literal")
				continue
			}
			l := &lit{fn: mc.Fn.(*ssa.Function), mc: mc, factory: factory, goCall: c, inLoop: inLoopWith(c.Block()), writes: map[*ssa.Alloc]string{}, reads: map[*ssa.Alloc]bool{}}
			lits = append(lits, l)
		}
		if len(lits) == 0 {
			continue
		}
		for _, l := range lits {
			bind := map[*ssa.FreeVar]*ssa.Alloc{}
			private := map[*ssa.Alloc]bool{} // variables of one factory invocation: not shared between bodies
			for i, fv := range l.fn.FreeVars {
				switch b := l.mc.Bindings[i].(type) {
				case *ssa.Alloc:
					bind[fv] = b
					if b.Parent() != f {
						private[b] = true
					}
				case *ssa.FreeVar:
					// captured by the factory from the enclosing function
					if l.factory != nil {
						ff := l.factory.Fn.(*ssa.Function)
						for j, ffv := range ff.FreeVars {
							if ffv == b && j < len(l.factory.Bindings) {
								if al, ok := l.factory.Bindings[j].(*ssa.Alloc); ok {
									bind[fv] = al
								}
							}
						}
					}
				}
			}
			key := funcName(l.fn)
			bad := ""
			eachInstr(l.fn, func(in ssa.Instruction) {
				switch x := in.(type) {
				case *ssa.Store:
					switch a := x.Addr.(type) {
					case *ssa.FreeVar:
						if al := bind[a]; al != nil {
							l.writes[al] = "var"
						}
					case *ssa.IndexAddr:
						// captured[idx] = ...
						if ld, ok := a.X.(*ssa.UnOp); ok && ld.Op == token.MUL {
							if fv, ok := ld.X.(*ssa.FreeVar); ok && bind[fv] != nil {
								l.writes[bind[fv]] = "elem"
								// idx must be a load of a captured per-iteration variable
								okIdx := false
								if il, ok := a.Index.(*ssa.UnOp); ok && il.Op == token.MUL {
									if ifv, ok := il.X.(*ssa.FreeVar); ok && bind[ifv] != nil {
										ia := bind[ifv]
										// allocated inside the loop body (per iteration) and stored once
										if (inLoopWith(ia.Block()) || private[ia]) && len(storesTo(ia)) == 1 {
											okIdx = true
										}
									}
								}
								if !okIdx && l.inLoop {
									bad = "an element write whose index is not a per-iteration copy of the loop variable at " + w.instrPos(x)
								}
							}
						}
					case *ssa.FieldAddr:
						if ld, ok := a.X.(*ssa.UnOp); ok {
							if fv, ok := ld.X.(*ssa.FreeVar); ok && bind[fv] != nil {
								l.writes[bind[fv]] = "var"
							}
						}
					}
				case *ssa.UnOp:
					if x.Op == token.MUL {
						if fv, ok := x.X.(*ssa.FreeVar); ok && bind[fv] != nil {
							l.reads[bind[fv]] = true
						}
					}
				case *ssa.MapUpdate:
					if ld, ok := x.Map.(*ssa.UnOp); ok {
						if fv, ok := ld.X.(*ssa.FreeVar); ok && bind[fv] != nil {
							l.writes[bind[fv]] = "map"
						}
					}
				}
			})
			for al := range private {
				delete(l.writes, al)
				delete(l.reads, al)
			}
			if l.inLoop {
				for al, how := range l.writes {
					if how != "elem" && bad == "" {
						bad = "the captured variable " + al.Comment + " itself is written (" + how + ") by a body started once per loop iteration: all iterations share it (results depend on the schedule)"
					}
				}
				// the loop variable itself must not be captured: every captured int alloc must be per-iteration
			}
			if bad != "" {
				r.Violate(rule, key+":loop-body", w.pos(l.fn.Pos()), "goroutine body started in a loop performs "+bad)
			} else if l.inLoop {
				r.OK(rule, key+":loop-body", w.pos(l.fn.Pos()), "writes only elements indexed by its per-iteration index")
			}
		}
		// sibling disjointness (bodies started at distinct sites)
		for i, a := range lits {
			for j, b := range lits {
				if i >= j {
					continue
				}
				conflict := ""
				for al := range a.writes {
					if _, w2 := b.writes[al]; w2 || b.reads[al] {
						conflict = al.Comment
					}
				}
				for al := range b.writes {
					if a.reads[al] {
						conflict = al.Comment
					}
				}
				key := funcName(a.fn) + "|" + funcName(b.fn)
				r.Check(conflict == "", rule, key+":disjoint", w.pos(a.fn.Pos()), "sibling goroutines touch disjoint captured variables", "sibling goroutines both access captured variable "+conflict+" and at least one writes it: data race")
			}
		}
		// parent: no access to written variables between Go and Wait
		if wait == nil {
			r.Violate(rule, funcName(f)+":wait", w.pos(f.Pos()), "goroutines are started but the group is never waited for")
			continue
		}
		written := map[*ssa.Alloc]bool{}
		for _, l := range lits {
			for al := range l.writes {
				written[al] = true
			}
		}
		badUse := ""
		for _, l := range lits {
			// blocks reachable from the Go call without passing the Wait block
			seen := map[*ssa.BasicBlock]bool{}
			var q []*ssa.BasicBlock
			start := l.goCall.Block()
			q = append(q, start)
			first := true
			for len(q) > 0 {
				b := q[0]
				q = q[1:]
				if seen[b] && !(first) {
					continue
				}
				from := 0
				if first {
					for i, in := range b.Instrs {
						if in == l.goCall.(ssa.Instruction) {
							from = i + 1
						}
					}
					first = false
				}
				// the block of the Go call is looked at from the call on at first; reached again round the loop it is
				// looked at from its top (what the spawner does before the next Go runs beside the earlier workers)
				if from == 0 {
					seen[b] = true
				}
				stop := false
				for _, in := range b.Instrs[from:] {
					if in == wait.(ssa.Instruction) {
						stop = true
						break
					}
					switch x := in.(type) {
					case *ssa.UnOp:
						if al, ok := x.X.(*ssa.Alloc); ok && x.Op == token.MUL && written[al] {
							// loading the slice header to index it is how the body gets it; a parent read of elements is what matters:
							if refs := x.Referrers(); refs != nil {
								for _, ref := range *refs {
									if _, isClosure := ref.(*ssa.MakeClosure); !isClosure {
										badUse = al.Comment + " read at " + w.instrPos(x)
									}
								}
							}
						}
					case *ssa.Store:
						if al, ok := x.Addr.(*ssa.Alloc); ok && written[al] {
							// per-iteration re-initialisation of loop-local copies is fine; a write to a result variable is not
							if !inLoopWith(al.Block()) {
								badUse = al.Comment + " written at " + w.instrPos(x)
							}
						}
					}
				}
				if !stop {
					for _, s := range b.Succs {
						if !seen[s] {
							q = append(q, s)
						}
					}
				}
			}
		}
		r.Check(badUse == "", rule, funcName(f)+":parent-after-wait", w.instrPos(wait), "the parent touches goroutine results only after Wait()", "the parent accesses a variable written by a goroutine before Wait(): "+badUse)
	}
}

var _ = sort.Strings

// calledOnlyByCreator: every closure value made from f is used only as the callee of plain calls (or defers)
// in the function that made it.
func calledOnlyByCreator(f *ssa.Function) bool {
	p := f.Parent()
	if p == nil {
		return false
	}
	n := 0
	ok := true
	eachInstr(p, func(in ssa.Instruction) {
		mc, is := in.(*ssa.MakeClosure)
		if !is || mc.Fn != ssa.Value(f) {
			return
		}
		n++
		refs := mc.Referrers()
		if refs == nil {
			return
		}
		for _, r := range *refs {
			switch x := r.(type) {
			case *ssa.DebugRef:
			case *ssa.Call:
				if x.Call.Value != ssa.Value(mc) {
					ok = false
				}
			case *ssa.Defer:
				if x.Call.Value != ssa.Value(mc) {
					ok = false
				}
			default:
				ok = false
			}
		}
	})
	return ok && n > 0
}
