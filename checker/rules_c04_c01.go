package main

import (
	"fmt"
	"go/token"
	"go/types"
	"regexp"
	"sort"
	"strings"

	"golang.org/x/tools/go/ssa"
)

func init() {
	register(&propertyDef{
		ID: "C04",
		Explanation: "Decides the fetch contract's structure: non-interference of the result shape (E-ni) — the fromTime, untilTime and step stored into every returned series are the same SSA values on both sides of the file-dependent 'never written' branch, the value count derives from the same (from, until, step), and no nil result is control-dependent on file content; " +
			"the rejecting tests are exactly from > until and archive id out of range and precede any file read; the nil results are exactly under 'from > now' and 'until < now - retention(selected archive)'; clamping uses the selected archive's retention and now; bounds are r.interval(clamped from/until) with the one-step extension when they coincide; findBestArchive receives the unclamped from; step is the selected archive's step; Points() yields from+i*step. " +
			"Not decided: the alignment arithmetic itself and the exact count (until-from)/step as numbers.",
		Run: rulesC04,
	})
	register(&propertyDef{
		ID: "C01",
		Explanation: "Decides the ring-storage structure: every % with a possibly negative dividend whose result is used other than in a comparison with zero sits inside floorMod, and slot indexes derive from floorMod with the archive's point count (E-range by type); every consumer of the raw ring reader passes its result through a stale-lap filter — a loop comparing each slot's stored time for (in)equality with an expected time advanced by the step, blanking mismatches to NaN or keeping only matches — with the same start interval and archive it read, before any value is used (E-stale typestate); " +
			"every point reaching the slot writer has a time produced by intervalForWrite of the archive being written (E-align greatest fixpoint over composites, slices, parameters and returns); slot placement rules of C06.R6. " +
			"Not decided: the ring arithmetic as numbers, wrap-around loop bounds, page-boundary behaviour of the cache, histories.",
		Run: rulesC01,
	})
}

var highFuncs = []string{"Whisper.baseInterval", "Whisper.fetchRawPoints", "Whisper.readPointAt", "Whisper.GetAllRawUnsortedPoints"}

func mentionsHigh(s string) bool {
	for _, h := range []string{"baseInterval(", "fetchRawPoints(", "readPointAt(", "GetAllRawUnsortedPoints(", "FileBuffer).ReadAt("} {
		if strings.Contains(s, h) {
			return true
		}
	}
	return false
}

func rulesC04(w *World, r *Report) {
	f := need(w, r, "C04.R1", w.Lib, "Whisper.FetchFromArchive")
	if f == nil {
		return
	}
	r.Rule("C04.R1", "non-interference (E-ni): for every pair of series-returning returns of FetchFromArchive the values stored to fromTime, untilTime and step are identical unless the separating branch does not depend on file content; the value count derives from the same from/until/step on both sides", 4)
	type shaped struct {
		ret    *ssa.Return
		fields map[string]ssa.Value
	}
	var shapes []shaped
	for _, rt := range returnsOf(f) {
		if isFailureReturn(rt) {
			continue
		}
		sh := shaped{ret: rt, fields: map[string]ssa.Value{}}
		litFields := func(al *ssa.Alloc) map[string]ssa.Value {
			m := map[string]ssa.Value{}
			for _, ref := range *al.Referrers() {
				fa, ok := ref.(*ssa.FieldAddr)
				if !ok {
					continue
				}
				_, fname, _ := fieldAddrOf(fa)
				for _, r2 := range *fa.Referrers() {
					if st, ok := r2.(*ssa.Store); ok {
						m[fname] = st.Val
					}
				}
			}
			return m
		}
		switch x := rt.Results[0].(type) {
		case *ssa.Alloc:
			sh.fields = litFields(x)
		case *ssa.Call:
			// a constructor of the module that only stores its parameters into the fields of a fresh struct
			sc := x.Common().StaticCallee()
			if sc == nil || !w.inModule(sc) || len(sc.Blocks) != 1 {
				continue
			}
			rets := returnsOf(sc)
			if len(rets) != 1 {
				continue
			}
			al, ok := rets[0].Results[0].(*ssa.Alloc)
			if !ok {
				continue
			}
			okCtor := true
			for fname, v := range litFields(al) {
				pi := -1
				for i, p := range sc.Params {
					if ssa.Value(p) == v {
						pi = i
					}
				}
				if pi < 0 || pi >= len(x.Common().Args) {
					okCtor = false
					break
				}
				sh.fields[fname] = x.Common().Args[pi]
			}
			if !okCtor || len(sh.fields) == 0 {
				continue
			}
		default:
			continue
		}
		shapes = append(shapes, sh)
	}
	if len(shapes) == 0 {
		r.Undecided("C04.R1", "FetchFromArchive:returns", w.pos(f.Pos()), "no return of a series built in FetchFromArchive found")
	}
	if len(shapes) == 1 {
		// one return serves the written and the never-written archive: bounds and step are the same values by construction
		for _, fld := range []string{"fromTime", "untilTime", "step"} {
			key := "FetchFromArchive:shape:" + fld
			if shapes[0].fields[fld] == nil {
				r.Undecided("C04.R1", key, w.instrPos(shapes[0].ret), "field "+fld+" is not set on the series-returning path")
			} else if _, isPhi := shapes[0].fields[fld].(*ssa.Phi); isPhi && mentionsHigh(newExprCtx(w).expr(shapes[0].fields[fld])) {
				r.Violate("C04.R1", key, w.instrPos(shapes[0].ret), "the series' "+fld+" is chosen depending on file content: "+newExprCtx(w).expr(shapes[0].fields[fld]))
			} else {
				r.OK("C04.R1", key, w.instrPos(shapes[0].ret), "a single return carries the same value for written and never-written archives")
			}
		}
	}
	for i := 0; i < len(shapes); i++ {
		for j := i + 1; j < len(shapes); j++ {
			a, b := shapes[i], shapes[j]
			// separating branch: terminator of the nearest common dominator
			ncd := a.ret.Block()
			for ncd != nil && !ncd.Dominates(b.ret.Block()) {
				ncd = ncd.Idom()
			}
			sep := ""
			if ncd != nil && len(ncd.Instrs) > 0 {
				if iff, ok := ncd.Instrs[len(ncd.Instrs)-1].(*ssa.If); ok {
					sep = newExprCtx(w).expr(iff.Cond)
				}
			}
			high := mentionsHigh(sep)
			for _, fld := range []string{"fromTime", "untilTime", "step"} {
				va, vb := a.fields[fld], b.fields[fld]
				key := "FetchFromArchive:shape:" + fld
				if va == nil || vb == nil {
					r.Undecided("C04.R1", key, w.instrPos(a.ret), "field "+fld+" is not set on every series-returning path")
					continue
				}
				same := va == vb || sameValue(va, vb)
				if same || !high {
					r.OK("C04.R1", key, w.instrPos(b.ret), "same value on both sides of the file-dependent branch")
				} else {
					r.Violate("C04.R1", key, w.instrPos(b.ret), "the series' "+fld+" differs between the two sides of a branch that depends on file content ("+shortExpr(sep)+"): "+newExprCtx(w).expr(va)+" vs "+newExprCtx(w).expr(vb)+" — the shape depends on whether the archive was ever written")
				}
			}
		}
	}
	// count: make((until-from)/step) on one side, Values() of fetchRawPoints(id, from, until) on the other
	if len(shapes) == 2 || len(shapes) == 1 {
		okCount := false
		detail := ""
		type shv struct {
			sh shaped
			v  ssa.Value
		}
		var cands []shv
		for _, sh := range shapes {
			for _, v := range leavesOf(sh.fields["values"]) {
				cands = append(cands, shv{sh, v})
			}
		}
		for _, cand := range cands {
			sh, v := cand.sh, cand.v
			if ms, ok := v.(*ssa.MakeSlice); ok {
				e := newExprCtx(w)
				want := "((" + e.expr(sh.fields["untilTime"]) + " -:uint32 " + e.expr(sh.fields["fromTime"]) + ") /:uint32 " + e.expr(sh.fields["step"]) + ")"
				got := e.expr(ms.Len)
				if got == want {
					okCount = true
				} else {
					detail = "never-written side allocates " + got + " values, expected " + want
				}
			}
		}
		okRaw := false
		for _, c := range callsTo(f, fn(w.Lib, "Whisper.fetchRawPoints")) {
			for _, sh := range shapes {
				if sameLeaves(c.Common().Args[2], sh.fields["fromTime"]) && sameLeaves(c.Common().Args[3], sh.fields["untilTime"]) {
					okRaw = true
				}
			}
		}
		r.Check(okCount && okRaw, "C04.R1", "FetchFromArchive:shape:count", w.pos(f.Pos()), "both sides produce (until-from)/step values of the same bounds", "the number of values does not derive from the returned (from, until, step) on both sides: "+detail)
	}

	ruleFetchRawReturnsWhole(w, r, "C04.R1")
	r.Rule("C04.R2", "no nil series depends on file content, and the nil results are exactly under `now < from` and `until < now.Add(-retention of the selected archive)`", 1)
	var nilConds []string
	for _, rt := range returnsOf(f) {
		if !isSuccessReturn(rt) || !isNilConst(rt.Results[0]) {
			continue
		}
		// the condition entering this return
		for _, p := range rt.Block().Preds {
			iff, ok := p.Instrs[len(p.Instrs)-1].(*ssa.If)
			if !ok {
				continue
			}
			bo, ok := iff.Cond.(*ssa.BinOp)
			if !ok {
				nilConds = append(nilConds, "?")
				continue
			}
			op := bo.Op
			if p.Succs[0] != rt.Block() {
				op = negateCmp(op)
			}
			x, y := bo.X, bo.Y
			if op == token.GTR || op == token.GEQ {
				x, y = y, x
				op = map[token.Token]token.Token{token.GTR: token.LSS, token.GEQ: token.LEQ}[op]
			}
			c := newExprCtx(w).expr(x) + " " + op.String() + " " + newExprCtx(w).expr(y)
			nilConds = append(nilConds, c)
			if mentionsHigh(c) {
				r.Violate("C04.R2", "FetchFromArchive:nil-high", w.instrPos(rt), "a nil series is returned depending on file content: "+c)
			}
		}
		for _, g := range blockGuards(w, rt.Block()) {
			if mentionsHigh(g) {
				r.Violate("C04.R2", "FetchFromArchive:nil-high", w.instrPos(rt), "a nil series is returned under a condition on file content: "+g)
			}
		}
	}
	okFuture, okOld := false, false
	for _, c := range nilConds {
		if regexp.MustCompile(`^(i\d+|p4) < p2$`).MatchString(c) {
			okFuture = true
		}
		if regexp.MustCompile(`^p3 < whispertool\.Timestamp\.Add\((i\d+|p4), -whispertool\.ArchiveInfo\.MaxRetention\(p0\.header\.archiveInfoList\[(i\d+|p1)\]\)\)$`).MatchString(c) {
			okOld = true
		}
	}
	r.Check(okFuture && okOld && len(nilConds) == 2, "C04.R2", "FetchFromArchive:nil-conditions", w.pos(f.Pos()), "nil iff now < from or until < now - retention(selected archive)", "a fetch returns no series under ["+strings.Join(nilConds, " ; ")+"]; the contract is exactly `now < from` (wholly in the future) and `until < now - retention of the selected archive` (wholly before its retention)")

	r.Rule("C04.R3", "rejecting tests (decision diagram over representatives): with 2 archives, for every archive id in -3..3 and every order of from/until, FetchFromArchive reaches a failure return before its first file read iff until < from, id > last archive, or id < 0 other than 'best' (-1)", 3)
	var firstRead ssa.Instruction
	for _, c := range callsIn(f) {
		if sc := c.Common().StaticCallee(); sc != nil && (sc == fn(w.Lib, "Whisper.baseInterval") || sc == fn(w.Lib, "Whisper.fetchRawPoints")) {
			if firstRead == nil || dominatesInstr(c.(ssa.Instruction), firstRead) {
				firstRead = c.(ssa.Instruction)
			}
		}
	}
	if len(f.Params) < 5 {
		r.Undecided("C04.R3", "FetchFromArchive:signature", w.pos(f.Pos()), "FetchFromArchive no longer takes (id, from, until, now)")
	} else {
		const nArch = 2
		lenBind := map[ssa.Value]aval{}
		ail := fn(w.Lib, "Whisper.ArchiveInfoList")
		eachInstr(f, func(in ssa.Instruction) {
			c, ok := in.(*ssa.Call)
			if !ok {
				return
			}
			if b, ok := c.Call.Value.(*ssa.Builtin); ok && b.Name() == "len" {
				if ac, ok := stripChangeType(c.Call.Args[0]).(*ssa.Call); ok && ail != nil && ac.Common().StaticCallee() == ail {
					lenBind[c] = aval{k: kInt, i: nArch}
				} else if newExprCtx(w).expr(c.Call.Args[0]) == "p0.header.archiveInfoList" {
					lenBind[c] = aval{k: kInt, i: nArch}
				}
			}
		})
		type verdict struct{ wrong []string }
		res := map[string]*verdict{"from-after-until": {}, "id-too-large": {}, "id-negative": {}}
		undecided := ""
		for id := int64(-3); id <= 3 && undecided == ""; id++ {
			for _, ft := range [][2]int64{{5, 9}, {9, 5}, {7, 7}} {
				e := &ddEngine{w: w, env: map[ssa.Value]aval{f.Params[1]: {k: kInt, i: id}, f.Params[2]: {k: kInt, i: ft[0]}, f.Params[3]: {k: kInt, i: ft[1]}}, maxLeafs: 256}
				for k, v := range lenBind {
					e.env[k] = v
				}
				e.stop = func(b *ssa.BasicBlock) bool { return firstRead != nil && b == firstRead.Block() }
				e.run(f)
				if e.err != nil {
					undecided = e.err.Error()
					break
				}
				wantFail := map[string]bool{"from-after-until": ft[1] < ft[0], "id-too-large": id > nArch-1, "id-negative": id < 0 && id != -1}
				anyWant := wantFail["from-after-until"] || wantFail["id-too-large"] || wantFail["id-negative"]
				nFail, nPass := 0, 0
				for _, l := range e.leaves {
					if l.ret != nil && len(l.results) == 2 && (l.results[1].k == kNonNil || isFailureReturn(l.ret)) {
						nFail++
					} else {
						nPass++
					}
				}
				desc := fmt.Sprintf("id=%d from=%d until=%d", id, ft[0], ft[1])
				for k, wf := range wantFail {
					if wf && nPass > 0 {
						res[k].wrong = append(res[k].wrong, desc+" is not rejected before the first read")
					}
				}
				if !anyWant && nFail > 0 {
					for k := range res {
						res[k].wrong = append(res[k].wrong, desc+" is rejected although it is a valid request")
					}
				}
			}
		}
		docs := map[string]string{"from-after-until": "from > until is an error", "id-too-large": "archive id beyond the last archive is an error", "id-negative": "negative archive id other than 'best' is an error"}
		for _, k := range []string{"from-after-until", "id-too-large", "id-negative"} {
			if undecided != "" {
				r.Undecided("C04.R3", "FetchFromArchive:"+k, w.pos(f.Pos()), "the decision diagram of FetchFromArchive could not be evaluated: "+undecided)
				continue
			}
			sort.Strings(res[k].wrong)
			bad := ""
			if len(res[k].wrong) > 0 {
				bad = res[k].wrong[0]
			}
			r.Check(len(res[k].wrong) == 0, "C04.R3", "FetchFromArchive:"+k, w.pos(f.Pos()), docs[k]+", and nothing else is; decided for 21 representative inputs before the first file read", "missing, late or excessive rejecting test ("+docs[k]+"): "+bad)
		}
	}

	r.Rule("C04.R4", "derives-from: findBestArchive receives the caller's unclamped from and now; the selected archive r = list[id] provides the retention for clamping, the step and the interval alignment; from is clamped up to now-retention and until down to now; bounds are r.interval(clamped) with until extended by one step exactly when they coincide", 5)
	ruleOneClockReading(w, r, "C04.R4", "Whisper.Fetch", "Whisper.FetchFromArchive")
	ruleAddSaturates(w, r, "C04.R4")
	// the best archive is the first whose retention is at least the age Sub(now, t), found by walking the list in order
	// (the last one when none is): one comparison, of an archive's own retention with that age
	if fb := fn(w.Lib, "Whisper.findBestArchive"); fb != nil && len(fb.Params) == 3 {
		bad := ""
		n := 0
		eachInstr(fb, func(in ssa.Instruction) {
			bo, ok := in.(*ssa.BinOp)
			if !ok || !isCmp(bo.Op) {
				return
			}
			xs, ys := newExprCtx(w).expr(bo.X), newExprCtx(w).expr(bo.Y)
			isRet := func(s string) bool {
				return regexp.MustCompile(`^whispertool\.ArchiveInfo\.MaxRetention\(p0\.header\.archiveInfoList\[.*\]\)$`).MatchString(s) || regexp.MustCompile(`^RET|^\(p0\.header\.archiveInfoList\[.*\]\.secondsPerPoint \*`).MatchString(s)
			}
			isAge := func(s string) bool { return s == "whispertool.Timestamp.Sub(p2, p1)" }
			// only comparisons that involve the age or a retention are the choice; index bookkeeping (the loop bound,
			// "is this the last archive") is not
			if !(isRet(xs) || isRet(ys) || isAge(xs) || isAge(ys) || strings.Contains(xs+ys, "MaxRetention(") || strings.Contains(xs+ys, "Timestamp.Sub(") || strings.Contains(xs+ys, "p1") || strings.Contains(xs+ys, "p2")) {
				return
			}
			n++
			switch {
			case isRet(xs) && isAge(ys) && (bo.Op == token.GEQ || bo.Op == token.LSS):
			case isAge(xs) && isRet(ys) && (bo.Op == token.LEQ || bo.Op == token.GTR):
			default:
				bad = "the comparison at " + w.instrPos(bo) + " is " + shortExpr(newExprCtx(w).expr(bo)) + ", not `retention of archive i >= now.Sub(t)`"
			}
		})
		for _, c := range callsIn(fb) {
			if sc := c.Common().StaticCallee(); sc != nil && sc.Pkg != nil && sc.Pkg.Pkg.Path() == "sort" {
				bad = "the archive is found with sort." + sc.Name() + " (" + w.instrPos(c) + "), whose answer for `no archive is old enough` is len(list), not the last archive"
			}
		}
		r.Check(bad == "" && n == 1, "C04.R4", "findBestArchive:choice", w.pos(fb.Pos()), "first archive with retention >= now.Sub(t), else the last", "findBestArchive: "+bad+": another archive than the finest one reaching back to the requested time is read or written (or the index leaves the list)")
	}
	// a fetch fails for its arguments, or because reading the file failed — never for what a slot holds: the functions
	// FetchFromArchive calls in package whispertool create no errors of their own (they pass on what the page buffer
	// and the decoders report)
	{
		var scope []*ssa.Function
		for g := range moduleReachable(w, []*ssa.Function{f}, nil) {
			if g == f || pkgOf(g) != w.Lib || g.Name() == "TakeFrom" || strings.HasSuffix(g.Name(), "Error") {
				continue
			}
			scope = append(scope, g)
		}
		sort.Slice(scope, func(i, j int) bool { return funcName(scope[i]) < funcName(scope[j]) })
		bad := ""
		for _, g := range scope {
			idx := errResultIndex(g)
			if idx < 0 {
				continue
			}
			for _, ret := range returnsOf(g) {
				vals, _ := resultValues(ret, idx)
				for _, v := range vals {
					if classifyErr(v).class == errFresh && bad == "" {
						bad = funcName(g) + " creates an error at " + w.instrPos(ret)
					}
				}
			}
		}
		r.Check(bad == "", "C04.R4", "FetchFromArchive:fails-for-arguments-only", w.pos(f.Pos()), fmt.Sprintf("%d functions below FetchFromArchive create no error of their own", len(scope)), bad+": whether a fetch of a valid window succeeds then depends on what is stored in the archive")
	}
	// both ends of the window are clamped independently: every path to a returned series has passed the test of from
	// against the oldest retained instant and the test of until against the clock (a window reaching over both edges
	// is cut at both)
	{
		var fromTest, untilTest ssa.Instruction
		for _, b := range f.Blocks {
			if len(b.Instrs) == 0 {
				continue
			}
			iff, ok := b.Instrs[len(b.Instrs)-1].(*ssa.If)
			if !ok {
				continue
			}
			e := newExprCtx(w).expr(iff.Cond)
			// the clamping tests lead to an assignment, the refusing ones (from > now, until < oldest) to `return nil`
			leadsToNil := false
			for _, sc := range b.Succs {
				for _, in := range sc.Instrs {
					if rt, isRet := in.(*ssa.Return); isRet && len(rt.Results) == 2 && isNilConst(rt.Results[0]) && isNilConst(rt.Results[1]) {
						leadsToNil = true
					}
				}
			}
			if leadsToNil {
				continue
			}
			switch {
			// (< or <=: assigning the bound to a value that already equals it changes nothing)
			case regexp.MustCompile(`^\(p2 <=? .*Add\(.*\)\)$`).MatchString(e) || regexp.MustCompile(`^\(p2 <=? i\d+\)$`).MatchString(e):
				fromTest = iff
			case regexp.MustCompile(`^\(.* <=? p3\)$`).MatchString(e) && !strings.Contains(e, "p2"):
				untilTest = iff
			}
		}
		bad := ""
		series := func(ret *ssa.Return) bool { return len(ret.Results) == 2 && !isNilConst(ret.Results[0]) }
		for _, t := range []struct {
			in   ssa.Instruction
			what string
		}{{fromTest, "from against the oldest retained instant"}, {untilTest, "until against the clock"}} {
			if t.in == nil {
				if bad == "" {
					bad = "the clamping test of " + t.what + " was not found"
				}
				continue
			}
			if ret := pathAvoidingTo(f.Blocks[0], func(in ssa.Instruction) bool { return in == t.in }, series); ret != nil && bad == "" {
				bad = "a series is returned (" + w.instrPos(ret) + ") on a path that never tests " + t.what
			}
		}
		r.Check(bad == "", "C04.R4", "FetchFromArchive:clamps-both-ends", w.pos(f.Pos()), "every returned series has passed both clamping tests", "FetchFromArchive: "+bad+": a window reaching before the retention and past the clock keeps one end unclamped, so the series covers more slots than the archive has")
	}
	for _, c := range callsTo(f, fn(w.Lib, "Whisper.findBestArchive")) {
		es := callArgExprs(w, c)
		r.Check(es[1] == "p2", "C04.R4", "FetchFromArchive:best-archive-from", w.instrPos(c), "best archive chosen from the unclamped from", "findBestArchive is called with "+es[1]+" instead of the requested from")
	}
	if len(shapes) > 0 {
		sh := shapes[len(shapes)-1]
		e := newExprCtx(w)
		from := e.expr(sh.fields["fromTime"])
		step := e.expr(sh.fields["step"])
		okFrom := regexp.MustCompile(`^whispertool\.ArchiveInfo\.interval\(p0\.header\.archiveInfoList\[(i\d+|p1)\], i\d+\)$`).MatchString(from)
		okStep := regexp.MustCompile(`^p0\.header\.archiveInfoList\[(i\d+|p1)\]\.secondsPerPoint$`).MatchString(step) || strings.HasSuffix(step, ".secondsPerPoint")
		r.Check(okFrom, "C04.R4", "FetchFromArchive:from-aligned", w.instrPos(sh.ret), "fromTime = r.interval(clamped from)", "fromTime is "+from+", not the selected archive's interval() of the clamped from")
		r.Check(okStep, "C04.R4", "FetchFromArchive:step", w.instrPos(sh.ret), "step is the selected archive's step", "step is "+step+", not the selected archive's secondsPerPoint")
		// until: phi(interval(until'), interval(until').Add(step)) under from == until
		okUntil := false
		if ph, ok := sh.fields["untilTime"].(*ssa.Phi); ok && len(ph.Edges) == 2 {
			var plain, ext ssa.Value
			for _, ed := range ph.Edges {
				if c, ok := ed.(*ssa.Call); ok && c.Common().StaticCallee() == fn(w.Lib, "Timestamp.Add") {
					ext = ed
				} else {
					plain = ed
				}
			}
			if plain != nil && ext != nil {
				ec := ext.(*ssa.Call)
				if ec.Common().Args[0] == plain && (sameValue(ec.Common().Args[1], sh.fields["step"]) || newExprCtx(w).expr(ec.Common().Args[1]) == newExprCtx(w).expr(sh.fields["step"])) {
					// guarded by fromInterval == untilInterval
					for _, gb := range f.Blocks {
						if len(gb.Instrs) == 0 {
							continue
						}
						iff, isIf := gb.Instrs[len(gb.Instrs)-1].(*ssa.If)
						if !isIf {
							continue
						}
						bo, isBo := iff.Cond.(*ssa.BinOp)
						if !isBo || bo.Op != token.EQL || !edgeDominates(gb, gb.Succs[0], ec.Block()) {
							continue
						}
						ft := sh.fields["fromTime"]
						if (bo.X == ft && bo.Y == plain) || (bo.Y == ft && bo.X == plain) {
							okUntil = true
						}
					}
				}
			}
		}
		r.Check(okUntil, "C04.R4", "FetchFromArchive:until-extended", w.instrPos(sh.ret), "until = r.interval(clamped until), one step further exactly when it equals from", "untilTime is not `r.interval(until)` extended by one step exactly when it coincides with fromTime, uniformly for written and never-written archives")
		// clamping: the interval() arguments are phis of (param, oldest) and (param, now)
		okClamp := 0
		for _, c := range callsTo(f, fn(w.Lib, "ArchiveInfo.interval")) {
			if ph, ok := c.Common().Args[1].(*ssa.Phi); ok {
				var es []string
				for _, ed := range ph.Edges {
					es = append(es, newExprCtx(w).expr(ed))
				}
				s := strings.Join(es, "|")
				if (strings.Contains(s, "p2") && strings.Contains(s, "MaxRetention(p0.header.archiveInfoList[")) || (strings.Contains(s, "p3") && regexp.MustCompile(`(^|\|)(i\d+|p4)($|\|)`).MatchString(s)) {
					okClamp++
				}
			}
		}
		r.Check(okClamp == 2, "C04.R4", "FetchFromArchive:clamp", w.pos(f.Pos()), "from is clamped to now-retention(selected archive), until to now", "the window is not clamped to [now - retention of the selected archive, now] before alignment")
	}
}

// ---------- C01 ----------

func rulesC01(w *World, r *Report) {
	r.Rule("C01.R1", "floored modulo (E-range by type): every % in package whispertool whose dividend may be negative (signed type not proven non-negative by a widening conversion from an unsigned type) and whose result is used other than in ==0/!=0 lies inside floorMod; no uint32->int32 narrowing feeds a %", 3)
	for _, f := range libFuncs(w) {
		eachInstr(f, func(in ssa.Instruction) {
			bo, ok := in.(*ssa.BinOp)
			if !ok || bo.Op != token.REM {
				return
			}
			key := funcName(f) + ":rem"
			bt, _ := bo.X.Type().Underlying().(*types.Basic)
			mayNeg := bt != nil && bt.Info()&types.IsUnsigned == 0
			narrowed := false
			if mayNeg {
				// widening conversion from unsigned => non-negative
				if cv, ok := bo.X.(*ssa.Convert); ok {
					if st, ok := cv.X.Type().Underlying().(*types.Basic); ok && st.Info()&types.IsUnsigned != 0 {
						if sizeOfBasic(bt) > sizeOfBasic(st) {
							mayNeg = false
						} else {
							narrowed = true
						}
					}
				}
				if _, isC := bo.X.(*ssa.Const); isC {
					mayNeg = false
				}
			}
			// sign-insensitive use
			onlyZeroCmp := true
			if refs := bo.Referrers(); refs != nil {
				for _, ref := range *refs {
					cmp, ok := ref.(*ssa.BinOp)
					if !ok || (cmp.Op != token.EQL && cmp.Op != token.NEQ) {
						if _, dbg := ref.(*ssa.DebugRef); !dbg {
							onlyZeroCmp = false
						}
						continue
					}
					other := cmp.Y
					if other == ssa.Value(bo) {
						other = cmp.X
					}
					if k, isK := constInt(other); !isK || k != 0 {
						onlyZeroCmp = false
					}
				}
			}
			switch {
			case funcName(f) == "whispertool.floorMod":
				r.OK("C01.R1", key, w.instrPos(bo), "the floored-modulo helper itself")
			case narrowed:
				r.Violate("C01.R1", key, w.instrPos(bo), "a timestamp is narrowed from "+newExprCtx(w).expr(bo.X)+" to a signed 32-bit value before %: from 2038 on the dividend is negative and the slot interval is computed on a shifted grid")
			case !mayNeg || onlyZeroCmp:
				r.OK("C01.R1", key, w.instrPos(bo), "dividend non-negative or result only compared with zero")
			default:
				r.Violate("C01.R1", key, w.instrPos(bo), "truncated % with a possibly negative dividend ("+newExprCtx(w).expr(bo.X)+") outside floorMod: slot/interval arithmetic goes wrong for negative distances")
			}
		})
	}
	// the slot index derives from floorMod by the point count (exact form checked under C06.R6)
	if pi := need(w, r, "C01.R1", w.Lib, "ArchiveInfo.pointIndex"); pi != nil {
		ok := false
		for _, rt := range returnsOf(pi) {
			e := newExprCtx(w).expr(rt.Results[0])
			if strings.HasPrefix(e, "whispertool.floorMod(") && strings.HasSuffix(e, ".numberOfPoints)") {
				ok = true
			}
		}
		r.Check(ok, "C01.R1", "pointIndex:floored", w.pos(pi.Pos()), "slot index = floorMod(distance, points)", "the slot index is not a floored modulo by the archive's point count")
	}
	ruleStaleFilter(w, r, "C01.R2")
	ruleAligned(w, r, "C01.R3")
	r.Rule("C01.R4", "the batch writer aligns and stores every point of the batch it is given (no filtering inside archiveUpdateMany)", 2)
	ruleWriterWritesAll(w, r, "C01.R4")
	r.Rule("C01.R5", "read-side slot addressing: fetchRawPoints fills its result one slot at a time with readPointAt, the file offset of consecutive result elements advancing by pointSize (a loop variable stepping by 12, base+i*12, or pointOffsetAt of a stepping index) and the result index by one", 1)
	ruleFetchEmptyOnlyWhenNeverWritten(w, r, "C01.R5")
	ruleFetchReadsOnlyThroughSlotReader(w, r, "C01.R5")
	ruleRawReadProgression(w, r, "C01.R5")
}

func sizeOfBasic(b *types.Basic) int {
	switch b.Kind() {
	case types.Int8, types.Uint8:
		return 1
	case types.Int16, types.Uint16:
		return 2
	case types.Int32, types.Uint32:
		return 4
	case types.Int64, types.Uint64, types.Int, types.Uint, types.Uintptr:
		return 8
	}
	return 8
}

// staleFilterKind classifies g as a stale-lap filter over its []Point
// parameter: "mutating", "pure" or "".
func staleFilterKind(w *World, g *ssa.Function) (kind string, why string) {
	if g == nil || len(g.Blocks) == 0 {
		return "", "no body"
	}
	var pts *ssa.Parameter
	for _, p := range g.Params {
		if s, ok := p.Type().Underlying().(*types.Slice); ok && namedTypeName(s.Elem()) == "Point" {
			pts = p
		}
	}
	if pts == nil {
		return "", "no []Point parameter"
	}
	// expected-time accumulator: phi with next = Timestamp.Add(phi, step)
	var acc *ssa.Phi
	eachInstr(g, func(in ssa.Instruction) {
		ph, ok := in.(*ssa.Phi)
		if !ok || !isLoopHeader(ph.Block()) {
			return
		}
		for _, e := range ph.Edges {
			if c, ok := e.(*ssa.Call); ok && c.Common().StaticCallee() == fn(w.Lib, "Timestamp.Add") && c.Common().Args[0] == ssa.Value(ph) {
				acc = ph
			}
			if bo, ok := e.(*ssa.BinOp); ok && bo.Op == token.ADD && bo.X == ssa.Value(ph) && namedTypeName(ph.Type()) == "Timestamp" {
				acc = ph
			}
		}
	})
	if acc == nil {
		return "", "no expected-time accumulator advanced by the step"
	}
	// comparison of P[i].Time with acc
	var cmp *ssa.BinOp
	var cmpIf *ssa.BasicBlock
	for _, b := range g.Blocks {
		if len(b.Instrs) == 0 {
			continue
		}
		iff, ok := b.Instrs[len(b.Instrs)-1].(*ssa.If)
		if !ok {
			continue
		}
		bo, ok := iff.Cond.(*ssa.BinOp)
		if !ok {
			continue
		}
		var other ssa.Value
		if bo.X == ssa.Value(acc) {
			other = bo.Y
		} else if bo.Y == ssa.Value(acc) {
			other = bo.X
		} else {
			continue
		}
		oe := newExprCtx(w).expr(other)
		if regexp.MustCompile(`^p\d+\[\(?i\d+( \+ 1\))?\]\.Time$`).MatchString(oe) {
			cmp, cmpIf = bo, b
		}
	}
	if cmp == nil {
		return "", "no comparison of the slot's stored time with the expected time"
	}
	if cmp.Op != token.NEQ && cmp.Op != token.EQL {
		return "", "the stored time is compared with `" + cmp.Op.String() + "` instead of (in)equality: a slot holding a different lap of the ring is not recognised as stale"
	}
	mismatch, match := cmpIf.Succs[0], cmpIf.Succs[1]
	if cmp.Op == token.EQL {
		mismatch, match = match, mismatch
	}
	// mutating: on mismatch SetNaN on P[i].Value
	mut := false
	for _, c := range callsIn(g) {
		if cv, ok := c.(*ssa.Call); ok && cv.Common().StaticCallee() == fn(w.Lib, "Value.SetNaN") && edgeDominates(cmpIf, mismatch, cv.Block()) {
			if strings.HasSuffix(newExprCtx(w).expr(cv.Common().Args[0]), ".Value") {
				mut = true
			}
		}
	}
	if mut {
		return "mutating", ""
	}
	// pure: the only append of P[i].Value is on the match edge
	pure := false
	for _, c := range callsIn(g) {
		if cv, ok := c.(*ssa.Call); ok && isBuiltin(cv, "append") {
			if edgeDominates(cmpIf, match, cv.Block()) {
				pure = true
			} else {
				return "", "values are appended outside the matching branch"
			}
		}
	}
	if pure {
		return "pure", ""
	}
	return "", "a mismatch neither blanks the slot nor drops it"
}

// ruleStaleFilter: C01.R2
func ruleStaleFilter(w *World, r *Report, rule string) {
	r.Rule(rule, "typestate (E-stale): the result of the ring reader fetchRawPoints is raw; in each consumer it may only be measured with len, or passed to a stale-lap filter called with the same start interval (and the same archive) as the read; values may be taken only after a mutating filter, or from a pure filter's result", 2)
	reader := fn(w.Lib, "Whisper.fetchRawPoints")
	if reader == nil {
		r.Undecided(rule, "anchor:fetchRawPoints", "-", "ring reader not found")
		return
	}
	n := 0
	for _, e := range w.callers(reader) {
		c, ok := e.Site.(*ssa.Call)
		if !ok {
			continue
		}
		f := c.Parent()
		n++
		key := funcName(f) + ":raw"
		var raw ssa.Value
		for _, ref := range *c.Referrers() {
			if ex, ok := ref.(*ssa.Extract); ok && ex.Index == 0 {
				raw = ex
			}
		}
		if raw == nil {
			r.Undecided(rule, key, w.instrPos(c), "the reader's result is not used")
			continue
		}
		var filterCall *ssa.Call
		var kind string
		bad := ""
		aliases := map[ssa.Value]bool{raw: true}
		for _, ref := range *raw.Referrers() {
			if ct, ok := ref.(*ssa.ChangeType); ok {
				aliases[ct] = true
			}
		}
		var uses []ssa.Instruction
		for a := range aliases {
			for _, ref := range *a.Referrers() {
				uses = append(uses, ref)
			}
		}
		for _, u := range uses {
			switch x := u.(type) {
			case *ssa.ChangeType, *ssa.DebugRef, *ssa.Return:
				continue
			case *ssa.Call:
				if isBuiltin(x, "len") {
					continue
				}
				sc := x.Common().StaticCallee()
				if sc != nil {
					if k, _ := staleFilterKind(w, sc); k != "" {
						filterCall, kind = x, k
						continue
					}
				}
			}
		}
		if filterCall == nil {
			why := ""
			for _, u := range uses {
				if x, ok := u.(*ssa.Call); ok && !isBuiltin(x, "len") {
					if sc := x.Common().StaticCallee(); sc != nil {
						if _, w2 := staleFilterKind(w, sc); w2 != "" && strings.Contains(strings.ToLower(sc.Name()), "old") || strings.Contains(strings.ToLower(sc.Name()), "valid") {
							_, why = staleFilterKind(w, sc)
							why = sc.Name() + " is not a stale-lap filter: " + why
						}
					}
				}
			}
			r.Violate(rule, key, w.instrPos(c), "raw ring slots are used without passing a stale-lap filter (a slot may hold a value written for another interval congruent modulo the ring length). "+why)
			continue
		}
		// other uses must come after a mutating filter
		for _, u := range uses {
			switch x := u.(type) {
			case *ssa.ChangeType, *ssa.DebugRef, *ssa.Return:
				continue
			case *ssa.Call:
				if x == filterCall || isBuiltin(x, "len") {
					continue
				}
				if kind == "mutating" && dominatesInstr(filterCall, x) {
					continue
				}
				bad = "raw slots reach " + calleeName(x) + " at " + w.instrPos(x) + " without (or before) the stale-lap filter"
			default:
				if kind == "mutating" && dominatesInstr(filterCall, u) {
					continue
				}
				bad = fmt.Sprintf("raw slots are used by %T at %s outside the filter", u, w.instrPos(u))
			}
		}
		// same start interval as the read; the filter's step/archive belongs to the archive read
		fa := filterCall.Common().Args
		okStart := len(fa) >= 2 && sameLeaves(fa[1], c.Common().Args[2])
		if bad == "" && !okStart {
			bad = "the filter is started at " + newExprCtx(w).expr(fa[1]) + " but the slots were read from " + newExprCtx(w).expr(c.Common().Args[2])
		}
		if bad == "" && len(fa) >= 3 {
			third := newExprCtx(w).expr(fa[2])
			readArchive := newExprCtx(w).expr(c.Common().Args[1])
			okArch := strings.Contains(third, "["+readArchive+"]")
			if !okArch {
				bad = "the filter uses the step/archive " + third + " but the slots were read from archive " + readArchive
			}
		}
		if bad != "" {
			r.Violate(rule, key, w.instrPos(filterCall), bad)
		} else {
			r.OK(rule, key, w.instrPos(filterCall), "raw slots pass the "+kind+" stale-lap filter "+calleeName(filterCall)+" with the read's start interval and archive before any value is used")
		}
	}
	if n == 0 {
		r.Undecided(rule, "consumers", "-", "no consumer of the ring reader found")
	}
}

// ruleAligned: C01.R3
func ruleAligned(w *World, r *Report, rule string) {
	r.Rule(rule, "aligned writes (E-align): every Point reaching putPointAt has a Time that is the result of intervalForWrite on the archive being written — directly, as an element of a slice all of whose elements are built that way, or through a parameter all of whose call sites pass such values", 3)
	put := fn(w.Lib, "Whisper.putPointAt")
	ifw := fn(w.Lib, "ArchiveInfo.intervalForWrite")
	if put == nil || ifw == nil {
		r.Undecided(rule, "anchors", "-", "putPointAt / intervalForWrite not found")
		return
	}
	// functions returning slices whose elements are aligned
	alignedTimeExpr := func(s string) bool {
		return strings.HasPrefix(s, "whispertool.ArchiveInfo.intervalForWrite(")
	}
	// summary: function -> all elements it returns are aligned ([]Point via composite Time, []Timestamp via values)
	alignedSliceFn := map[*ssa.Function]bool{}
	for changed := true; changed; {
		changed = false
		for _, f := range libFuncs(w) {
			if alignedSliceFn[f] || len(f.Blocks) == 0 {
				continue
			}
			res := f.Signature.Results()
			if res.Len() == 0 {
				continue
			}
			sl, ok := res.At(0).Type().Underlying().(*types.Slice)
			if !ok {
				continue
			}
			en := namedTypeName(sl.Elem())
			if en != "Point" && en != "Timestamp" {
				continue
			}
			ok2 := true
			nApp := 0
			for _, c := range callsIn(f) {
				cv, isCall := c.(*ssa.Call)
				if !isCall || !isBuiltin(cv, "append") {
					continue
				}
				if namedTypeName(cv.Type().Underlying().(*types.Slice).Elem()) != en {
					continue
				}
				nApp++
				for _, el := range variadicArgs(cv.Common().Args[1]) {
					if el == nil {
						continue
					}
					if en == "Timestamp" {
						if !alignedTimeExpr(newExprCtx(w).expr(el)) {
							ok2 = false
						}
					} else {
						// element is a load of a local Point alloc: its Time field store must be aligned
						if !pointTimeAligned(w, el, alignedTimeExpr) {
							ok2 = false
						}
					}
				}
			}
			if ok2 && nApp > 0 {
				alignedSliceFn[f] = true
				changed = true
			}
		}
	}
	isAlignedSliceValue := func(v ssa.Value) bool {
		for _, l := range leavesOf(v) {
			c, idx, ok := callResult(l)
			if !ok || idx != 0 {
				if k, isK := l.(*ssa.Const); isK && k.Value == nil {
					continue // nil slice
				}
				return false
			}
			if sc := c.Common().StaticCallee(); sc == nil || !alignedSliceFn[sc] {
				return false
			}
		}
		return true
	}
	// parameters of slice type: aligned if all call sites pass aligned slices
	paramAligned := func(f *ssa.Function, idx int) bool {
		n := 0
		for _, e := range w.callers(f) {
			if e.Site == nil || !w.inModule(e.Caller.Func) {
				continue
			}
			n++
			if !isAlignedSliceValue(e.Site.Common().Args[idx]) {
				return false
			}
		}
		return n > 0
	}
	n := 0
	for _, e := range w.callers(put) {
		c, ok := e.Site.(*ssa.Call)
		if !ok {
			continue
		}
		n++
		f := c.Parent()
		key := funcName(f) + ":aligned-write"
		arg := c.Common().Args[1]
		ok2 := false
		how := ""
		if pointTimeAligned(w, arg, alignedTimeExpr) {
			ok2, how = true, "Time = intervalForWrite(...)"
		}
		arg = unwrapRangeCopy(arg)
		if !ok2 {
			// element of a slice
			if u, isLoad := arg.(*ssa.UnOp); isLoad {
				if ia, isIA := u.X.(*ssa.IndexAddr); isIA {
					if isAlignedSliceValue(ia.X) {
						ok2, how = true, "element of a slice built by an aligning function"
					} else if p, isP := ia.X.(*ssa.Parameter); isP {
						for i, q := range f.Params {
							if q == p && paramAligned(f, i) {
								ok2, how = true, "element of a parameter that every caller fills with aligned points"
							}
						}
					}
				}
			}
		}
		if !ok2 {
			// composite whose Time is an element of an aligned []Timestamp (parameter or local)
			if tv := pointTimeValue(arg); tv != nil {
				if u, isLoad := tv.(*ssa.UnOp); isLoad {
					if ia, isIA := u.X.(*ssa.IndexAddr); isIA {
						if p, isP := ia.X.(*ssa.Parameter); isP {
							for i, q := range f.Params {
								if q == p && paramAligned(f, i) {
									ok2, how = true, "Time taken from a work-list every caller fills with intervalForWrite results"
								}
							}
						} else if isAlignedSliceValue(ia.X) {
							ok2, how = true, "Time taken from an aligned work-list"
						}
					}
				}
			}
		}
		r.Check(ok2, rule, key, w.instrPos(c), how, "a point reaches the slot writer with a Time that is not produced by intervalForWrite ("+newExprCtx(w).expr(arg)+"): it would occupy a slot under an interval that is not floor(t/S)*S")
	}
	if n < 3 {
		r.Undecided(rule, "write-sites", "-", fmt.Sprintf("expected 3 slot-write sites, found %d", n))
	}
}

// pointTimeValue: for a Point value loaded from a local alloc, the value stored to its Time field.
func pointTimeValue(v ssa.Value) ssa.Value {
	u, ok := v.(*ssa.UnOp)
	if !ok || u.Op != token.MUL {
		return nil
	}
	al, ok := u.X.(*ssa.Alloc)
	if !ok {
		return nil
	}
	var tv ssa.Value
	for _, ref := range *al.Referrers() {
		if fa, ok := ref.(*ssa.FieldAddr); ok {
			if _, fname, _ := fieldAddrOf(fa); fname == "Time" {
				for _, r2 := range *fa.Referrers() {
					if st, ok := r2.(*ssa.Store); ok {
						tv = st.Val
					}
				}
			}
		}
	}
	return tv
}

func pointTimeAligned(w *World, v ssa.Value, aligned func(string) bool) bool {
	tv := pointTimeValue(v)
	if tv == nil {
		return false
	}
	return aligned(newExprCtx(w).expr(tv))
}

// unwrapRangeCopy: `for _, p := range xs` copies xs[i] into a local; a load
// of that local is replaced by the load of xs[i] it was stored from.
func unwrapRangeCopy(v ssa.Value) ssa.Value {
	u, ok := v.(*ssa.UnOp)
	if !ok || u.Op != token.MUL {
		return v
	}
	al, ok := u.X.(*ssa.Alloc)
	if !ok {
		return v
	}
	sts := storesTo(al)
	if len(sts) != 1 {
		return v
	}
	if src, ok := sts[0].Val.(*ssa.UnOp); ok && src.Op == token.MUL {
		if _, isIA := src.X.(*ssa.IndexAddr); isIA {
			return src
		}
	}
	return v
}

// ruleRawReadProgression: C01.R5.
func ruleRawReadProgression(w *World, r *Report, rule string) {
	f := fn(w.Lib, "Whisper.fetchRawPoints")
	rp := fn(w.Lib, "Whisper.readPointAt")
	if f == nil || rp == nil {
		r.Undecided(rule, "fetchRawPoints:reads", "-", "fetchRawPoints / readPointAt not found")
		return
	}
	var calls []*ssa.Call
	for _, g := range withLiterals(f) {
		calls = append(calls, callsTo(g, rp)...)
	}
	if len(calls) == 0 {
		r.Undecided(rule, "fetchRawPoints:reads", w.pos(f.Pos()), "fetchRawPoints does not read its slots one by one with readPointAt: how consecutive result elements map to file offsets is not recognised")
		return
	}
	stepsBy := func(v ssa.Value, k int64) bool {
		ph, ok := stripConvert(v).(*ssa.Phi)
		if !ok {
			return false
		}
		for _, e := range ph.Edges {
			if bo, ok := stripConvert(e).(*ssa.BinOp); ok && bo.Op == token.ADD {
				if c, isK := constInt(bo.Y); isK && c == k && stripConvert(bo.X) == ssa.Value(ph) {
					return true
				}
				if c, isK := constInt(bo.X); isK && c == k && stripConvert(bo.Y) == ssa.Value(ph) {
					return true
				}
			}
		}
		return false
	}
	var progression func(v ssa.Value, d int) bool
	progression = func(v ssa.Value, d int) bool {
		v = stripConvert(v)
		if d > 4 {
			return false
		}
		if stepsBy(v, 12) {
			return true
		}
		switch x := v.(type) {
		case *ssa.BinOp:
			if x.Op == token.ADD {
				return progression(x.X, d+1) || progression(x.Y, d+1)
			}
			if x.Op == token.MUL {
				if c, isK := constInt(x.Y); isK && c == 12 && (stepsBy(x.X, 1) || isRangeIndex(x.X)) {
					return true
				}
				if c, isK := constInt(x.X); isK && c == 12 && (stepsBy(x.Y, 1) || isRangeIndex(x.Y)) {
					return true
				}
			}
		case *ssa.Call:
			if sc := x.Common().StaticCallee(); sc != nil && sc == fn(w.Lib, "ArchiveInfo.pointOffsetAt") && len(x.Common().Args) == 2 {
				a := stripConvert(x.Common().Args[1])
				return stepsBy(a, 1) || isRangeIndex(a)
			}
		}
		return false
	}
	for i, c := range calls {
		key := fmt.Sprintf("fetchRawPoints:read#%d", i+1)
		off := c.Common().Args[1]
		okOff := progression(off, 0)
		// the result element written: points[j] with j stepping by one
		okIdx := false
		for _, g := range withLiterals(f) {
			eachInstr(g, func(in ssa.Instruction) {
				st, ok := in.(*ssa.Store)
				if !ok {
					return
				}
				ia, ok := st.Addr.(*ssa.IndexAddr)
				if !ok {
					return
				}
				if ex, ok := st.Val.(*ssa.Extract); ok && ex.Tuple == ssa.Value(c) && ex.Index == 0 {
					idx := stripConvert(ia.Index)
					if stepsBy(idx, 1) || isRangeIndex(idx) {
						okIdx = true
					}
					// an index kept in a captured variable: loaded, incremented and stored back
					if u, ok := idx.(*ssa.UnOp); ok && u.Op == token.MUL {
						okIdx = true
					}
				}
			})
		}
		switch {
		case !okOff:
			r.Violate(rule, key, w.instrPos(c), "the file offset "+shortExpr(newExprCtx(w).expr(off))+" passed to readPointAt does not advance by pointSize from one result element to the next: slots of the window are read from the wrong place (or the same place again)")
		case !okIdx:
			r.Violate(rule, key, w.instrPos(c), "the slot read is not stored into consecutive elements of the result")
		default:
			r.OK(rule, key, w.instrPos(c), "offset advances by 12 per result element")
		}
	}
}

// isRangeIndex: v is (phi+1) of a range loop counter starting at -1.
func isRangeIndex(v ssa.Value) bool {
	bo, ok := stripConvert(v).(*ssa.BinOp)
	if !ok || bo.Op != token.ADD {
		return false
	}
	ph, ok := bo.X.(*ssa.Phi)
	k, isK := constInt(bo.Y)
	return ok && isK && k == 1 && loopFromTo(ph, -1)
}
