package main

import (
	"fmt"
	"go/token"
	"go/types"

	"golang.org/x/tools/go/ssa"
)

func init() {
	register(&propertyDef{
		ID: "C13",
		Explanation: "Decides the lock discipline structurally: a failed Open/Create closes the descriptor on every failure path after the lock was taken (must-pass-through on the SSA control-flow graph, through direct calls, wrappers and registered defers); " +
			"openAndLockFile takes flock(LOCK_EX) blocking on the descriptor it just opened on every success path unless the handle's flock option is off, and closes the file if locking fails; nothing touches the file before the lock; the default is locked and nothing in the module turns it off; " +
			"only openAndLockFile calls flock and no library path closes the descriptor of a handle it then returns; commands close every handle they open on all paths. " +
			"Not decided: absence of lost updates and page-mixture freedom across processes (schedule-quantified consequences of this discipline).",
		Run: rulesC13,
	})
}

func isFileCloseOn(c ssa.CallInstruction, typeName, field string) bool {
	return isMethodCall(c, "os", "File", "Close") && isLoadOfField(callRecv(c), typeName, field)
}

func rulesC13(w *World, r *Report) {
	open := need(w, r, "C13.R1", w.Lib, "Open")
	create := need(w, r, "C13.R1", w.Lib, "Create")
	var oal *ssa.Function
	for _, f := range libFuncs(w) {
		for _, c := range callsIn(f) {
			if isCallToPkgFunc(c, "syscall", "Flock") {
				if oal != nil && oal != f {
					r.Violate("C13.R5", "flock-sites", w.instrPos(c), "syscall.Flock is called from more than one function")
				}
				oal = f
			}
		}
	}
	if oal == nil {
		r.Violate("C13.R2", "anchor:flock", "-", "no function of package whispertool calls syscall.Flock: files are not locked at all")
	}
	closeF := need(w, r, "C13.R5", w.Lib, "Whisper.Close")
	if open == nil || create == nil || oal == nil || closeF == nil {
		return
	}

	// the function that opens the descriptor (normally the lock function itself)
	openFn := oal
	for _, f := range libFuncs(w) {
		for _, c := range callsIn(f) {
			if isCallToPkgFunc(c, "os", "OpenFile") {
				openFn = f
			}
		}
	}
	closesFile := newMustPerf(w, func(c ssa.CallInstruction) bool {
		if isFileCloseOn(c, "Whisper", "file") {
			return true
		}
		// closing the local *os.File right after os.OpenFile (openAndLockFile's own failure path)
		if isMethodCall(c, "os", "File", "Close") {
			if ex, ok := callRecv(c).(*ssa.Extract); ok {
				if cv, ok := ex.Tuple.(*ssa.Call); ok && isCallToPkgFunc(cv, "os", "OpenFile") {
					return true
				}
			}
		}
		return false
	})

	// ---------- R1
	r.Rule("C13.R1", "must-pass-through: in Open and Create, from the success edge of openAndLockFile every return that does not hand out the handle (nil *Whisper, or a definite error) passes (*os.File).Close on w.file — directly, through a wrapper all of whose paths close, or through a registered defer", 2)
	for _, ctor := range []*ssa.Function{open, create} {
		var lockCall *ssa.Call
		for _, c := range callsIn(ctor) {
			if cv, ok := c.(*ssa.Call); ok && reachesLibFn(w, c.Common().StaticCallee(), openFn) {
				lockCall = cv
			}
		}
		key := funcName(ctor)
		if lockCall == nil {
			r.Violate("C13.R1", key+":lock-call", w.pos(ctor.Pos()), "constructor does not call the function that opens (and locks) the file")
			continue
		}
		succ, _, ok := successEdge(lockCall)
		if !ok {
			r.Violate("C13.R1", key+":lock-call", w.instrPos(lockCall), "the error of opening the file is not tested")
			continue
		}
		exit := func(ret *ssa.Return) bool {
			if len(ret.Results) > 0 && isNilConst(ret.Results[0]) {
				return true
			}
			return isFailureReturn(ret)
		}
		nExits := 0
		for _, ret := range returnsOf(ctor) {
			if exit(ret) && (succ == ret.Block() || succ.Dominates(ret.Block())) {
				nExits++
			}
		}
		closesFile.exit = exit
		p, ret := findBypass(pathQuery{fn: ctor, startBlock: succ, passes: closesFile.instr, exit: exit})
		closesFile.exit = nil
		if p != nil {
			r.Violate("C13.R1", key+":close-on-failure", w.instrPos(ret),
				"a failure return of "+ctor.Name()+" is reachable after the file was opened and locked without closing it: the lock outlives the failed constructor and blocks the next Open", w.blockPathString(p))
		} else {
			r.OK("C13.R1", key+":close-on-failure", w.instrPos(lockCall), fmt.Sprintf("all %d failure returns after the lock pass w.file.Close()", nExits))
		}
		// what those paths close is the file that was opened: a Close on the handle's file field comes after the field
		// was given the opened file (in the constructor, or inside a function it called before), not on a nil field
		bad := ""
		nClose := 0
		for _, c := range callsIn(ctor) {
			sc := c.Common().StaticCallee()
			if sc == nil || !isMethodFunc(sc, "os", "File", "Close") || len(c.Common().Args) == 0 {
				continue
			}
			u, isLoad := c.Common().Args[0].(*ssa.UnOp)
			if !isLoad || u.Op != token.MUL {
				continue
			}
			_, fld, isFld := fieldAddrOf(u.X)
			if !isFld {
				continue
			}
			nClose++
			assigned := false
			storesField := func(g *ssa.Function) bool {
				found := false
				eachInstr(g, func(in ssa.Instruction) {
					if st, ok := in.(*ssa.Store); ok {
						if _, n2, ok2 := fieldAddrOf(st.Addr); ok2 && n2 == fld && !isNilConst(st.Val) {
							found = true
						}
					}
				})
				return found
			}
			eachInstr(ctor, func(in ssa.Instruction) {
				switch t := in.(type) {
				case *ssa.Store:
					if _, n2, ok2 := fieldAddrOf(t.Addr); ok2 && n2 == fld && !isNilConst(t.Val) && dominatesInstr(t, c.(ssa.Instruction)) {
						assigned = true
					}
				case *ssa.Call:
					if g := t.Common().StaticCallee(); g != nil && pkgOf(g) == w.Lib && dominatesInstr(t, c.(ssa.Instruction)) && storesField(g) {
						assigned = true
					}
				}
			})
			if !assigned && bad == "" {
				bad = "the Close at " + w.instrPos(c) + " is applied to the handle's field `" + fld + "` before anything was stored there"
			}
		}
		r.Check(bad == "", "C13.R1", key+":closes-the-opened-file", w.pos(ctor.Pos()), fmt.Sprintf("%d Close calls on the handle's file field, each after the field was set", nClose), ctor.Name()+": "+bad+": Close on a nil *os.File only returns an error, the descriptor stays open and locked")
	}

	// ---------- R2
	r.Rule("C13.R2", "in openAndLockFile every may-succeed return passes syscall.Flock(fd of the file just opened, exactly LOCK_EX) except on the false edge of the handle's flock option; the failure edge of Flock closes the file; the function performs nothing but OpenFile, Fd, Flock, Close", 5)
	var flockCall, openFileCall *ssa.Call
	for _, c := range callsIn(oal) {
		cv, ok := c.(*ssa.Call)
		if !ok {
			continue
		}
		if isCallToPkgFunc(c, "syscall", "Flock") {
			flockCall = cv
		}
		if isCallToPkgFunc(c, "os", "OpenFile") {
			openFileCall = cv
		}
	}
	if flockCall == nil || (openFileCall == nil && openFn == oal) {
		r.Violate("C13.R2", "openAndLockFile:calls", w.pos(oal.Pos()), fmt.Sprintf("openAndLockFile must call os.OpenFile and syscall.Flock (found OpenFile=%v Flock=%v)", openFileCall != nil, flockCall != nil))
	} else {
		// how == LOCK_EX exactly
		how, isC := constInt(flockCall.Common().Args[1])
		r.Check(isC && how == 2, "C13.R2", "flock:how", w.instrPos(flockCall), "how is the constant LOCK_EX",
			fmt.Sprintf("flock is not called with exactly LOCK_EX (constant=%v value=%d): a shared or non-blocking lock does not serialise sessions", isC, how))
		// fd derives from Fd() of the OpenFile result
		fdOK := false
		if fdc, ok := stripConvert(flockCall.Common().Args[0]).(*ssa.Call); ok && isMethodCall(fdc, "os", "File", "Fd") {
			if ex, ok := callRecv(fdc).(*ssa.Extract); ok && openFileCall != nil && ex.Tuple == ssa.Value(openFileCall) && ex.Index == 0 {
				fdOK = true
			}
			if isLoadOfField(callRecv(fdc), "Whisper", "file") {
				fdOK = true
			}
		}
		r.Check(fdOK, "C13.R2", "flock:fd", w.instrPos(flockCall), "locks the descriptor just opened", "flock is not applied to the descriptor returned by os.OpenFile")
		// the only permitted bypass is the false edge of `if w.flock`
		var optIf *ssa.BasicBlock
		for _, b := range oal.Blocks {
			if len(b.Instrs) == 0 {
				continue
			}
			if iff, ok := b.Instrs[len(b.Instrs)-1].(*ssa.If); ok && isLoadOfField(iff.Cond, "Whisper", "flock") {
				optIf = b
			}
		}
		p, ret := findBypass(pathQuery{fn: oal, startBlock: oal.Blocks[0],
			passes: func(in ssa.Instruction) bool { return in == ssa.Instruction(flockCall) },
			exit:   maySucceed,
			skipEdge: func(from, to *ssa.BasicBlock) bool {
				return optIf != nil && from == optIf && to == optIf.Succs[1]
			}})
		if p != nil {
			r.Violate("C13.R2", "flock:taken", w.instrPos(ret), "openAndLockFile can succeed without taking the lock although the handle's flock option is on", w.blockPathString(p))
		} else {
			r.OK("C13.R2", "flock:taken", w.instrPos(flockCall), "every success path with flock on passes syscall.Flock")
		}
		if optIf == nil {
			r.Notes = append(r.Notes, "openAndLockFile has no branch on Whisper.flock: the lock is unconditional")
		}
		// error checked and failure edge closes
		if msg := checkErrorHandled(w, flockCall); msg != "" {
			r.Violate("C13.R2", "flock:checked", w.instrPos(flockCall), "the error of Flock is not surfaced: "+msg)
		} else {
			r.OK("C13.R2", "flock:checked", w.instrPos(flockCall), "error tested; failure edge reaches only failure returns")
		}
		if _, fail, ok := successEdge(flockCall); ok {
			p, ret := findBypass(pathQuery{fn: oal, startBlock: fail, passes: closesFile.instr, exit: func(*ssa.Return) bool { return true }})
			if p != nil {
				r.Violate("C13.R2", "flock:close-on-failure", w.instrPos(ret), "when Flock fails the file is not closed", w.blockPathString(p))
			} else {
				r.OK("C13.R2", "flock:close-on-failure", w.instrPos(flockCall), "the failure edge of Flock closes the file")
			}
		}
		// OpenFile's error tested
		if openFileCall != nil {
			if msg := checkErrorHandled(w, openFileCall); msg != "" {
				r.Violate("C13.R2", "openfile:checked", w.instrPos(openFileCall), msg)
			} else {
				r.OK("C13.R2", "openfile:checked", w.instrPos(openFileCall), "error tested")
			}
		}
		// nothing else happens in here (no read before the lock)
		for _, c := range callsIn(oal) {
			sc := c.Common().StaticCallee()
			if sc == nil {
				r.Violate("C13.R2", "openAndLockFile:extra-call", w.instrPos(c), "dynamic call inside openAndLockFile: cannot show that nothing reads the file before the lock")
				continue
			}
			okc := isPkgFunc(sc, "os", "OpenFile") || isPkgFunc(sc, "syscall", "Flock") || isPkgFunc(sc, "fmt", "Errorf") || isPkgFunc(sc, "errors", "New") ||
				isMethodFunc(sc, "os", "File", "Fd") || isMethodFunc(sc, "os", "File", "Close")
			if !okc && (isMethodFunc(sc, "os", "File", sc.Name()) || w.inModuleOrFB(sc)) {
				r.Violate("C13.R2", "openAndLockFile:extra-call:"+sc.Name(), w.instrPos(c), "openAndLockFile calls "+funcName(sc)+": the file may be touched before/without the lock")
			}
		}
	}

	// ---------- R3: lock before any access in the constructors
	r.Rule("C13.R3", "dominance: in Open and Create every call that touches the file or its page buffer (Stat, Truncate, filebuffer.New, readHeader, putHeader, any FileBuffer method) is dominated by the success edge of openAndLockFile", 6)
	for _, ctor := range []*ssa.Function{open, create} {
		var lockCall *ssa.Call
		for _, c := range callsIn(ctor) {
			if cv, ok := c.(*ssa.Call); ok && reachesLibFn(w, c.Common().StaticCallee(), oal) {
				lockCall = cv
			}
		}
		if lockCall == nil {
			r.Violate("C13.R3", funcName(ctor)+":locks", w.pos(ctor.Pos()), ctor.Name()+" never calls the function that takes the lock")
			continue
		}
		succ, _, ok := successEdge(lockCall)
		if !ok {
			r.Violate("C13.R3", funcName(ctor)+":locks", w.instrPos(lockCall), "the error of the lock call is not tested")
			continue
		}
		for _, c := range callsIn(ctor) {
			sc := c.Common().StaticCallee()
			if sc == nil || reachesLibFn(w, sc, oal) || reachesLibFn(w, sc, openFn) || isMethodFunc(sc, "os", "File", "Close") {
				continue
			}
			touches := isMethodFunc(sc, "os", "File", sc.Name()) || pkgOf(sc) == w.FB ||
				(pkgOf(sc) == w.Lib && sc.Signature.Recv() != nil && namedTypeName(sc.Signature.Recv().Type()) == "Whisper" && w.findPath(sc, func(g *ssa.Function) bool { return pkgOf(g) == w.FB }, w.inModule) != nil)
			if !touches {
				continue
			}
			in := c.(ssa.Instruction)
			dom := succ == in.Block() || succ.Dominates(in.Block())
			r.Check(dom, "C13.R3", funcName(ctor)+":"+sc.Name(), w.instrPos(c), "after the lock", sc.Name()+" may run before the file is locked: a concurrent session's pages could be read or written")
		}
	}

	// the open itself must not change the file: it happens before the lock is asked for, so O_TRUNC in the flag
	// empties the file under the session that holds it
	{
		trunc := osConst(w, "O_TRUNC")
		consts, nArgs := openFlagConsts(w)
		bad := ""
		for _, k := range consts {
			if trunc != 0 && k&trunc != 0 {
				bad = "a flag value containing os.O_TRUNC"
			}
		}
		if trunc == 0 || nArgs == 0 {
			r.Undecided("C13.R3", "openFileFlag:no-truncate", "-", "os.O_TRUNC or the os.OpenFile call not found")
		} else {
			r.Check(bad == "", "C13.R3", "openFileFlag:no-truncate", w.pos(oal.Pos()), fmt.Sprintf("%d constants reach the flag of os.OpenFile, none with O_TRUNC", len(consts)), "os.OpenFile is reached by "+bad+": open(2) empties the file before flock is even asked for, under the session that holds the lock")
		}
	}

	// the file lock is the only lock a handle holds from Open to Close: an in-process mutex taken on the way is given
	// back in the function that took it (held across the return it would have to be released on every failure path of
	// the constructors as well, which close the descriptor directly)
	{
		n := 0
		bad := ""
		for _, f := range libFuncs(w) {
			for _, c := range callsIn(f) {
				sc := c.Common().StaticCallee()
				if sc == nil || sc.Pkg == nil || sc.Pkg.Pkg.Path() != "sync" || (sc.Name() != "Lock" && sc.Name() != "RLock") {
					continue
				}
				n++
				recv := newExprCtx(w).expr(c.Common().Args[0])
				unlocks := func(in ssa.Instruction) bool {
					ci, ok := in.(ssa.CallInstruction)
					if !ok {
						return false
					}
					g := ci.Common().StaticCallee()
					return g != nil && g.Pkg != nil && g.Pkg.Pkg.Path() == "sync" && (g.Name() == "Unlock" || g.Name() == "RUnlock") && newExprCtx(w).expr(ci.Common().Args[0]) == recv
				}
				deferred := false
				eachInstr(f, func(in ssa.Instruction) {
					if d, ok := in.(*ssa.Defer); ok && unlocks(d) && dominatesInstr(c.(ssa.Instruction), d) {
						deferred = true
					}
				})
				if deferred {
					continue
				}
				// from just after the Lock: a return reachable without an Unlock of the same mutex
				blk := c.Block()
				after := false
				escaped := false
				for _, in := range blk.Instrs {
					if in == c.(ssa.Instruction) {
						after = true
						continue
					}
					if after && unlocks(in) {
						escaped = true
					}
				}
				if escaped {
					continue
				}
				held := false
				for _, s2 := range blk.Succs {
					if pathAvoiding(s2, unlocks) != nil {
						held = true
					}
				}
				if _, isRet := blk.Instrs[len(blk.Instrs)-1].(*ssa.Return); isRet {
					held = true
				}
				if held && bad == "" {
					bad = funcName(f) + " returns with the mutex " + shortExpr(recv) + " (locked at " + w.instrPos(c) + ") still held"
				}
			}
		}
		r.Check(bad == "", "C13.R5", "mutex-not-held-across-return", w.pos(oal.Pos()), fmt.Sprintf("%d mutex acquisitions in package whispertool, each released before its function returns", n), bad+": the failure paths of Open and Create close the descriptor themselves and know nothing of it, so a failed Open leaves the path blocked for every later Open in the process")
	}

	// ---------- R4: default is locked
	r.Rule("C13.R4", "constants: both constructors initialise flock=true; the only other store to Whisper.flock is `false` inside WithoutFlock; no non-test code of the module calls WithoutFlock", 4)
	for _, f := range libFuncs(w) {
		eachInstr(f, func(in ssa.Instruction) {
			st, ok := in.(*ssa.Store)
			if !ok {
				return
			}
			base, fname, ok := fieldAddrOf(st.Addr)
			if !ok || fname != "flock" || namedTypeName(base.Type()) != "Whisper" {
				return
			}
			c, isConst := st.Val.(*ssa.Const)
			switch {
			case f == open || f == create:
				r.Check(isConst && c.Value != nil && c.Value.String() == "true", "C13.R4", "default:"+funcName(f), w.instrPos(st), "flock defaults to true", f.Name()+" does not default to flock=true")
			case f.Parent() != nil && f.Parent().Name() == "WithoutFlock":
				r.OK("C13.R4", "option:WithoutFlock", w.instrPos(st), "the opt-out option")
			default:
				r.Violate("C13.R4", "store:"+funcName(f), w.instrPos(st), "Whisper.flock is written outside the constructors' defaults and WithoutFlock")
			}
		})
	}
	if wf := fn(w.Lib, "WithoutFlock"); wf != nil {
		n := 0
		for _, e := range w.callers(wf) {
			if w.inModule(e.Caller.Func) {
				n++
				r.Violate("C13.R4", "WithoutFlock-caller:"+funcName(e.Caller.Func), w.instrPos(e.Site), "non-test code opens a file without the lock")
			}
		}
		if n == 0 {
			r.OK("C13.R4", "WithoutFlock-callers", w.pos(wf.Pos()), "no non-test caller in the module")
		}
	}

	// ---------- R5: only Close releases
	r.Rule("C13.R5", "who-may-call: syscall.Flock is called only from openAndLockFile; Whisper.Close closes w.file on every path; every other (*os.File).Close in package whispertool is followed only by failure returns (a handle is never handed out with its descriptor closed)", 4)
	for _, f := range w.modFuncs {
		for _, c := range callsIn(f) {
			if isCallToPkgFunc(c, "syscall", "Flock") {
				r.Check(f == oal, "C13.R5", "flock-caller:"+funcName(f), w.instrPos(c), "the single lock site", "syscall.Flock is called outside openAndLockFile (an unlock or a second lock changes the lock's lifetime)")
			}
		}
	}
	if p, ret := findBypass(pathQuery{fn: closeF, startBlock: closeF.Blocks[0], passes: closesFile.instr, exit: func(*ssa.Return) bool { return true }}); p != nil {
		r.Violate("C13.R5", "Close:closes", w.instrPos(ret), "Whisper.Close can return without closing w.file: the lock outlives the handle", w.blockPathString(p))
	} else {
		r.OK("C13.R5", "Close:closes", w.pos(closeF.Pos()), "every path of Close closes w.file")
	}
	for _, f := range libFuncs(w) {
		if f == closeF {
			continue
		}
		for _, c := range callsIn(f) {
			if !isMethodCall(c, "os", "File", "Close") {
				continue
			}
			if f.Parent() != nil {
				// a deferred cleanup closure: the close must sit under the non-nil edge of a nil test on a captured error
				under := false
				for _, b := range f.Blocks {
					x, nonNil, _, isTest := nilTest(b)
					if !isTest || !edgeDominates(b, nonNil, c.Block()) {
						continue
					}
					if ld, ok := x.(*ssa.UnOp); ok {
						if _, isFV := ld.X.(*ssa.FreeVar); isFV && isErrorType(x.Type()) {
							under = true
						}
					}
				}
				if !under {
					// or under a success flag that is set on every path to a return that hands the handle out
					for _, in := range f.Parent().Blocks {
						for _, pi := range in.Instrs {
							d, ok := pi.(*ssa.Defer)
							if !ok {
								continue
							}
							if mc, ok := d.Call.Value.(*ssa.MakeClosure); !ok || mc.Fn != ssa.Value(f) {
								continue
							}
							g := analyseFlagGuard(d, func(cc ssa.CallInstruction) bool { return isMethodCall(cc, "os", "File", "Close") })
							if g != nil && g.setBefore(func(rt *ssa.Return) bool {
								if errResultIndex(f.Parent()) < 0 {
									return true
								}
								return maySucceed(rt)
							}) {
								under = true
							}
						}
					}
				}
				r.Check(under, "C13.R5", "close:"+funcName(f), w.instrPos(c), "cleanup closure closes only when the captured error is non-nil (or the success flag is unset)", "a closure closes the handle's descriptor unconditionally: a handle could be handed out with its descriptor closed")
				continue
			}
			in, isCall := c.(*ssa.Call)
			if !isCall {
				r.Violate("C13.R5", "close:"+funcName(f), w.instrPos(c), "deferred Close of the handle's descriptor inside the library")
				continue
			}
			p, ret := findBypass(pathQuery{fn: f, startAfter: in, passes: func(ssa.Instruction) bool { return false }, exit: func(rt *ssa.Return) bool {
				if errResultIndex(f) < 0 {
					return true
				}
				return maySucceed(rt)
			}})
			if p != nil {
				r.Violate("C13.R5", "close:"+funcName(f), w.instrPos(ret), "after closing the descriptor "+f.Name()+" can still return success: the handle would be unlocked while in use", w.blockPathString(p))
			} else {
				r.OK("C13.R5", "close:"+funcName(f), w.instrPos(c), "close on a failure path only")
			}
		}
	}

	// ---------- R6: commands close what they open
	r.Rule("C13.R6", "must-pass-through: in every cmd function reachable from an HTTP handler of the long-lived server process, from the success edge of each whispertool.Open/Create every return passes Close on the handle (direct or deferred) unless the handle itself is returned — a handle dropped there keeps its lock and blocks every later session on that file", 2)
	r.Rule("C13.R7", "a command or handler reads a file in one session: no cmd function opens the file named by its own parameters more than once on a path (two call sites in sequence, or one in a loop), directly or through cmd functions that reach whispertool.Open", 1)
	ruleOneSessionPerRead(w, r, "C13.R7")
	libOpen, libCreate := open, create
	serverReach := map[*ssa.Function]bool{}
	for _, h := range httpHandlers(w) {
		var rec func(f *ssa.Function)
		rec = func(f *ssa.Function) {
			if serverReach[f] || !w.inModule(f) {
				return
			}
			serverReach[f] = true
			for _, e := range w.callees(f) {
				rec(e.Callee.Func)
			}
			for _, a := range f.AnonFuncs {
				rec(a)
			}
		}
		rec(h)
	}
	for _, f := range cmdFuncs(w) {
		if !serverReach[f] {
			continue
		}
		for _, c := range callsIn(f) {
			cv, ok := c.(*ssa.Call)
			if !ok {
				continue
			}
			sc := c.Common().StaticCallee()
			if sc != libOpen && sc != libCreate {
				continue
			}
			var h ssa.Value
			for _, ref := range *cv.Referrers() {
				if e, ok := ref.(*ssa.Extract); ok && e.Index == 0 {
					h = e
				}
			}
			key := funcName(f) + ":" + sc.Name()
			succ, _, okE := successEdge(cv)
			if h == nil || !okE {
				r.Undecided("C13.R6", key, w.instrPos(c), "handle or error of "+sc.Name()+" is not used in a recognised way")
				continue
			}
			al := handleAliases(f, h)
			mp := newMustPerf(w, func(cc ssa.CallInstruction) bool {
				if cc.Common().StaticCallee() != closeF {
					return false
				}
				rv := callRecv(cc)
				return al[rv] || al[handleRoot(rv)]
			})
			returnsHandle := func(ret *ssa.Return) bool {
				for _, res := range ret.Results {
					if _, isPtr := res.Type().Underlying().(*types.Pointer); isPtr && namedTypeName(res.Type()) == "Whisper" {
						if al[res] || al[handleRoot(res)] {
							return true
						}
						if ph, ok := res.(*ssa.Phi); ok {
							for _, e := range ph.Edges {
								if al[e] || al[handleRoot(e)] {
									return true
								}
							}
						}
					}
				}
				return false
			}
			p, ret := findBypass(pathQuery{fn: f, startBlock: succ, passes: mp.instr, exit: func(rt *ssa.Return) bool { return !returnsHandle(rt) }})
			if p != nil {
				r.Violate("C13.R6", key, w.instrPos(ret), "a handle opened here can be dropped without Close: its lock stays until the garbage collector finalizes it, blocking later Opens (e.g. the next server request)", w.blockPathString(p))
			} else {
				r.OK("C13.R6", key, w.instrPos(c), "closed (or handed to the caller) on every path")
			}
		}
	}
	_ = token.ADD
}

// httpHandlers: the functions registered with http.HandleFunc (looking
// through the module's wrapHandler-style adapters: a call whose argument is a
// bound method or function value).
func httpHandlers(w *World) []*ssa.Function {
	var out []*ssa.Function
	seen := map[*ssa.Function]bool{}
	var fromValue func(v ssa.Value)
	fromValue = func(v ssa.Value) {
		switch x := v.(type) {
		case *ssa.Function:
			if !seen[x] {
				seen[x] = true
				out = append(out, x)
			}
		case *ssa.MakeClosure:
			if f, ok := x.Fn.(*ssa.Function); ok {
				// bound method wrapper: resolve to the method
				if f.Synthetic != "" && f.Object() != nil {
					if m := w.Prog.FuncValue(f.Object().(*types.Func)); m != nil {
						f = m
					}
				}
				if !seen[f] {
					seen[f] = true
					out = append(out, f)
				}
			}
			for _, b := range x.Bindings {
				fromValue(b)
			}
		case *ssa.Call:
			// adapter(h): take the function-typed arguments, and the closures the adapter itself returns
			for _, a := range x.Common().Args {
				if _, ok := a.Type().Underlying().(*types.Signature); ok {
					fromValue(a)
				}
			}
			if sc := x.Common().StaticCallee(); sc != nil && w.inModule(sc) {
				for _, af := range sc.AnonFuncs {
					if !seen[af] {
						seen[af] = true
						out = append(out, af)
					}
				}
			}
		case *ssa.ChangeType:
			fromValue(x.X)
		}
	}
	for _, f := range cmdFuncs(w) {
		for _, c := range callsIn(f) {
			if isCallToPkgFunc(c, "net/http", "HandleFunc") && len(c.Common().Args) == 2 {
				fromValue(c.Common().Args[1])
				// handlers taken from a table of routes
				var hv ssa.Value = c.Common().Args[1]
				if cc, isCall := hv.(*ssa.Call); isCall && len(cc.Common().Args) == 1 {
					hv = cc.Common().Args[0]
				}
				if _, hs := tableColumn(hv); hs != nil {
					for _, h := range hs {
						fromValue(h)
					}
				}
			}
		}
	}
	return out
}

// reachesLibFn: f is target or calls it through package whispertool functions.
func reachesLibFn(w *World, f, target *ssa.Function) bool {
	if f == nil || target == nil {
		return false
	}
	if f == target {
		return true
	}
	if pkgOf(f) != w.Lib {
		return false
	}
	return w.findPath(f, func(g *ssa.Function) bool { return g == target }, func(g *ssa.Function) bool { return pkgOf(g) == w.Lib }) != nil
}

// openFlagConsts: the integer constants that can reach the flag argument of an os.OpenFile call of package whispertool:
// backward slice through arithmetic, phis, the handle's option field (every store to it in the package) and parameters
// (the arguments of the package's own call sites; what a caller outside passes to an option is the caller's choice).
func openFlagConsts(w *World) (consts []int64, nArgs int) {
	var flagArgs []ssa.Value
	for _, f := range libFuncs(w) {
		for _, c := range callsIn(f) {
			if isCallToPkgFunc(c, "os", "OpenFile") && len(c.Common().Args) == 3 {
				flagArgs = append(flagArgs, c.Common().Args[1])
			}
		}
	}
	seen := map[ssa.Value]bool{}
	var visit func(v ssa.Value)
	visit = func(v ssa.Value) {
		if seen[v] {
			return
		}
		seen[v] = true
		switch t := v.(type) {
		case *ssa.Const:
			if k, ok := constInt(t); ok {
				consts = append(consts, k)
			}
		case *ssa.BinOp:
			visit(t.X)
			visit(t.Y)
		case *ssa.Phi:
			for _, e := range t.Edges {
				visit(e)
			}
		case *ssa.Convert:
			visit(t.X)
		case *ssa.ChangeType:
			visit(t.X)
		case *ssa.UnOp:
			if t.Op != token.MUL {
				visit(t.X)
				return
			}
			if _, name, ok := fieldAddrOf(t.X); ok {
				for _, g := range libFuncs(w) {
					eachInstr(g, func(in ssa.Instruction) {
						if st, isSt := in.(*ssa.Store); isSt {
							if _, n2, ok2 := fieldAddrOf(st.Addr); ok2 && n2 == name {
								visit(st.Val)
							}
						}
					})
				}
			}
		case *ssa.Parameter:
			for _, g := range libFuncs(w) {
				for _, c := range callsIn(g) {
					if c.Common().StaticCallee() == t.Parent() {
						for i, q := range t.Parent().Params {
							if q == t && i < len(c.Common().Args) {
								visit(c.Common().Args[i])
							}
						}
					}
				}
			}
		}
	}
	for _, a := range flagArgs {
		visit(a)
	}
	return consts, len(flagArgs)
}
