package main

func ruleStaleFilter(w *World, r *Report, rule string) {}
