package main

import (
	"fmt"
	"go/constant"
	"go/token"
	"go/types"
	"sort"
	"strings"

	"golang.org/x/tools/go/ssa"
)

// exprCtx renders SSA values as canonical, name-free expressions so that
// rules can compare *which* value flows where (derives-from, T4) without
// matching source text. Parameters are p0..pn (p0 = receiver), fields keep
// their declared names, loop indices are numbered in order of appearance,
// loads of local variables are forwarded to what was stored into them
// (including stores made by closures that capture the variable).
type exprCtx struct {
	w     *World
	names map[ssa.Value]string
	depth int
	busy  map[ssa.Value]bool
}

func newExprCtx(w *World) *exprCtx {
	return &exprCtx{w: w, names: map[ssa.Value]string{}, busy: map[ssa.Value]bool{}}
}

func (c *exprCtx) sym(v ssa.Value, prefix string) string {
	if n, ok := c.names[v]; ok {
		return n
	}
	n := fmt.Sprintf("%s%d", prefix, len(c.names))
	c.names[v] = n
	return n
}

// storesTo returns every value stored to alloc a, in its function and in
// closures capturing it.
func storesTo(a *ssa.Alloc) []*ssa.Store {
	var out []*ssa.Store
	var addrs []ssa.Value = []ssa.Value{a}
	seen := map[ssa.Value]bool{a: true}
	for len(addrs) > 0 {
		x := addrs[0]
		addrs = addrs[1:]
		refs := x.Referrers()
		if refs == nil {
			continue
		}
		for _, r := range *refs {
			switch y := r.(type) {
			case *ssa.Store:
				if y.Addr == x {
					out = append(out, y)
				}
			case *ssa.MakeClosure:
				fnc := y.Fn.(*ssa.Function)
				for i, b := range y.Bindings {
					if b == x && i < len(fnc.FreeVars) {
						fv := fnc.FreeVars[i]
						if !seen[fv] {
							seen[fv] = true
							addrs = append(addrs, fv)
						}
					}
				}
			}
		}
	}
	return out
}

// bindingOf maps a FreeVar back to the value bound by the (unique) MakeClosure.
func bindingOf(fv *ssa.FreeVar) ssa.Value {
	f := fv.Parent()
	idx := -1
	for i, x := range f.FreeVars {
		if x == fv {
			idx = i
		}
	}
	if idx < 0 || f.Parent() == nil {
		return nil
	}
	var found ssa.Value
	eachInstr(f.Parent(), func(in ssa.Instruction) {
		if mc, ok := in.(*ssa.MakeClosure); ok && mc.Fn == ssa.Value(f) && idx < len(mc.Bindings) {
			found = mc.Bindings[idx]
		}
	})
	return found
}

func (c *exprCtx) expr(v ssa.Value) string {
	c.depth++
	defer func() { c.depth-- }()
	if c.depth > 14 {
		return "…"
	}
	switch x := v.(type) {
	case nil:
		return "<nil>"
	case *ssa.Parameter:
		f := x.Parent()
		for i, p := range f.Params {
			if p == x {
				if f.Parent() != nil { // parameter of a literal
					return fmt.Sprintf("lit.p%d", i)
				}
				return fmt.Sprintf("p%d", i)
			}
		}
		return "p?"
	case *ssa.Const:
		if x.Value == nil {
			return "nil"
		}
		return x.Value.ExactString()
	case *ssa.FreeVar:
		if b := bindingOf(x); b != nil {
			return c.expr(b)
		}
		return "freevar"
	case *ssa.Alloc:
		// address of a local; render by what is stored when unique
		return "&" + c.allocValue(x)
	case *ssa.Global:
		return x.Pkg.Pkg.Name() + "." + x.Name()
	case *ssa.Function:
		return funcName(x)
	case *ssa.Builtin:
		return x.Name()
	case *ssa.UnOp:
		if x.Op == token.MUL {
			switch a := x.X.(type) {
			case *ssa.Alloc:
				return c.allocValue(a)
			case *ssa.FreeVar:
				// through any number of nested literals
				var b ssa.Value = a
				for i := 0; i < 4; i++ {
					fv, isFV := b.(*ssa.FreeVar)
					if !isFV {
						break
					}
					b = bindingOf(fv)
				}
				if al, ok := b.(*ssa.Alloc); ok {
					return c.allocValue(al)
				}
			case *ssa.FieldAddr, *ssa.IndexAddr:
				return c.expr(a)
			case *ssa.Global:
				return c.expr(a)
			}
			if inner := c.expr(x.X); strings.HasPrefix(inner, "&") {
				return inner[1:]
			} else {
				return "*" + inner
			}
		}
		return x.Op.String() + c.expr(x.X)
	case *ssa.FieldAddr:
		_, name, _ := fieldAddrOf(x)
		return strings.TrimPrefix(c.expr(x.X), "&") + "." + name
	case *ssa.Field:
		_, name, _ := fieldAddrOf(x)
		return c.expr(x.X) + "." + name
	case *ssa.IndexAddr:
		return strings.TrimPrefix(c.expr(x.X), "&") + "[" + c.expr(x.Index) + "]"
	case *ssa.Index:
		return c.expr(x.X) + "[" + c.expr(x.Index) + "]"
	case *ssa.Lookup:
		return c.expr(x.X) + "[" + c.expr(x.Index) + "]"
	case *ssa.Slice:
		if al, ok := x.X.(*ssa.Alloc); ok && x.Low == nil && x.High == nil && (al.Comment == "varargs" || al.Comment == "slicelit") {
			if els := variadicArgs(x); els != nil {
				var parts []string
				for _, e := range els {
					if e == nil {
						parts = append(parts, "_")
					} else {
						parts = append(parts, c.expr(e))
					}
				}
				return "[" + strings.Join(parts, ", ") + "]"
			}
		}
		lo, hi := "", ""
		if x.Low != nil {
			lo = c.expr(x.Low)
		}
		if x.High != nil {
			hi = c.expr(x.High)
		}
		return c.expr(x.X) + "[" + lo + ":" + hi + "]"
	case *ssa.Phi:
		// loop-carried index or merge
		if isIntType(x.Type()) {
			return c.sym(x, "i")
		}
		if c.busy[x] {
			return "@"
		}
		c.busy[x] = true
		defer delete(c.busy, x)
		var parts []string
		seen := map[string]bool{}
		for _, e := range x.Edges {
			s := c.expr(e)
			if !seen[s] {
				seen[s] = true
				parts = append(parts, s)
			}
		}
		sort.Strings(parts)
		if len(parts) == 1 {
			return parts[0]
		}
		return "phi(" + strings.Join(parts, "|") + ")"
	case *ssa.Convert:
		return c.expr(x.X)
	case *ssa.ChangeType:
		return c.expr(x.X)
	case *ssa.ChangeInterface:
		return c.expr(x.X)
	case *ssa.MakeInterface:
		return c.expr(x.X)
	case *ssa.BinOp:
		op := x.Op.String()
		switch x.Op {
		case token.ADD, token.SUB, token.MUL, token.QUO, token.REM:
			if b, ok := x.Type().Underlying().(*types.Basic); ok && b.Kind() != types.Int && b.Info()&types.IsNumeric != 0 {
				op += ":" + b.Name()
			}
		}
		xs, ys := c.expr(x.X), c.expr(x.Y)
		// comparisons have one spelling: only < and <=, operands of == and != in lexical order
		switch x.Op {
		case token.GTR:
			return "(" + ys + " < " + xs + ")"
		case token.GEQ:
			return "(" + ys + " <= " + xs + ")"
		case token.EQL, token.NEQ:
			if ys < xs {
				xs, ys = ys, xs
			}
		}
		return "(" + xs + " " + op + " " + ys + ")"
	case *ssa.Extract:
		return c.expr(x.Tuple) + "#" + fmt.Sprint(x.Index)
	case *ssa.Call:
		return c.callExpr(x)
	case *ssa.MakeClosure:
		f := x.Fn.(*ssa.Function)
		if f.Synthetic != "" && f.Object() != nil && len(x.Bindings) == 1 {
			return "bound(" + c.expr(x.Bindings[0]) + "." + f.Object().Name() + ")"
		}
		return "closure(" + funcName(f) + ")"
	case *ssa.Next:
		return c.sym(x, "it")
	case *ssa.Range:
		return "range(" + c.expr(x.X) + ")"
	case *ssa.MakeSlice:
		return "make(" + c.expr(x.Len) + ")"
	}
	return fmt.Sprintf("%T", v)
}

func isIntType(t types.Type) bool {
	b, ok := t.Underlying().(*types.Basic)
	return ok && b.Info()&types.IsInteger != 0
}

func (c *exprCtx) callExpr(x *ssa.Call) string {
	cc := x.Common()
	var args []string
	for _, a := range cc.Args {
		args = append(args, c.expr(a))
	}
	// a trivial getter of a module type is the field it returns: x.F() and x.f render alike
	if sc := cc.StaticCallee(); sc != nil && len(cc.Args) == 1 && c.w != nil && c.w.inModule(sc) {
		if path := getterPath(sc); path != nil {
			base := strings.TrimPrefix(strings.TrimPrefix(args[0], "&"), "*")
			return base + "." + strings.Join(path, ".")
		}
	}
	name := ""
	switch {
	case cc.IsInvoke():
		name = c.expr(cc.Value) + "." + cc.Method.Name()
	case cc.StaticCallee() != nil:
		name = funcName(cc.StaticCallee())
		// the receiver of a module method renders alike for pointer and value receivers
		if sc := cc.StaticCallee(); sc.Signature.Recv() != nil && len(args) > 0 && c.w != nil && c.w.inModule(sc) {
			args[0] = strings.TrimPrefix(strings.TrimPrefix(args[0], "*"), "&")
		}
	default:
		name = c.expr(cc.Value)
	}
	return name + "(" + strings.Join(args, ", ") + ")"
}

func (c *exprCtx) allocValue(a *ssa.Alloc) string {
	sts := storesTo(a)
	seen := map[string]bool{}
	var parts []string
	for _, st := range sts {
		// skip zero-value initialisation stores
		if k, ok := st.Val.(*ssa.Const); ok && k.Value == nil {
			continue
		}
		s := c.expr(st.Val)
		if !seen[s] {
			seen[s] = true
			parts = append(parts, s)
		}
	}
	sort.Strings(parts)
	switch len(parts) {
	case 0:
		return "var:" + a.Comment
	case 1:
		return parts[0]
	}
	return "var(" + strings.Join(parts, "|") + ")"
}

// variadicArgs returns the elements of the []interface{} built for a
// variadic call (nil if the argument is not a freshly built slice).
func variadicArgs(arg ssa.Value) []ssa.Value {
	sl, ok := arg.(*ssa.Slice)
	if !ok {
		return nil
	}
	al, ok := sl.X.(*ssa.Alloc)
	if !ok {
		return nil
	}
	at, ok := al.Type().Underlying().(*types.Pointer).Elem().Underlying().(*types.Array)
	if !ok {
		return nil
	}
	out := make([]ssa.Value, at.Len())
	for _, r := range *al.Referrers() {
		ia, ok := r.(*ssa.IndexAddr)
		if !ok {
			continue
		}
		idx, ok := constInt(ia.Index)
		if !ok || idx < 0 || idx >= int64(len(out)) {
			continue
		}
		for _, r2 := range *ia.Referrers() {
			if st, ok := r2.(*ssa.Store); ok {
				out[idx] = st.Val
			}
		}
	}
	return out
}

// leavesOf traces v back through phis, conversions and loads of local
// variables (including variables written by capturing closures) and returns
// the leaf values that may flow into it.
func leavesOf(v ssa.Value) []ssa.Value {
	var out []ssa.Value
	seen := map[ssa.Value]bool{}
	var rec func(v ssa.Value)
	rec = func(v ssa.Value) {
		if v == nil || seen[v] {
			return
		}
		seen[v] = true
		switch x := v.(type) {
		case *ssa.Phi:
			for _, e := range x.Edges {
				rec(e)
			}
			return
		case *ssa.ChangeType:
			rec(x.X)
			return
		case *ssa.Convert:
			rec(x.X)
			return
		case *ssa.MakeInterface:
			rec(x.X)
			return
		case *ssa.ChangeInterface:
			rec(x.X)
			return
		case *ssa.Field:
			// field k of a struct value loaded from a local struct variable
			if ld, ok := x.X.(*ssa.UnOp); ok && ld.Op == token.MUL {
				if al := localAllocOf(ld.X); al != nil {
					if vals, ok := fieldOrigins(al, []int{x.Field}, 0); ok {
						for _, fv := range vals {
							rec(fv)
						}
						return
					}
				}
			}
		case *ssa.UnOp:
			if x.Op == token.MUL {
				// field of a local struct variable (possibly written through closures or by whole-struct copies)
				if fa, ok := x.X.(*ssa.FieldAddr); ok {
					if al := localAllocOf(fa.X); al != nil {
						if vals, ok := fieldOrigins(al, []int{fa.Field}, 0); ok {
							for _, fv := range vals {
								rec(fv)
							}
							return
						}
					}
				}
				var al *ssa.Alloc
				switch a := x.X.(type) {
				case *ssa.Alloc:
					al = a
				case *ssa.FreeVar:
					al, _ = bindingOf(a).(*ssa.Alloc)
				}
				if al != nil {
					n := 0
					// a nil / zero constant is not a source of data: when the variable also receives
					// computed values (error paths reset it to nil), only those are its origins
					nonZero := 0
					for _, st := range storesTo(al) {
						if k, ok := st.Val.(*ssa.Const); !ok || k.Value != nil {
							nonZero++
						}
					}
					for _, st := range storesTo(al) {
						if k, ok := st.Val.(*ssa.Const); ok && k.Value == nil && (!isNilable(k.Type()) || nonZero > 0) {
							continue
						}
						n++
						rec(st.Val)
					}
					if n > 0 {
						return
					}
				}
			}
		case *ssa.FreeVar:
			if b := bindingOf(x); b != nil {
				rec(b)
				return
			}
		}
		out = append(out, v)
	}
	rec(v)
	return out
}

func isNilable(t types.Type) bool {
	switch t.Underlying().(type) {
	case *types.Pointer, *types.Slice, *types.Map, *types.Interface, *types.Chan, *types.Signature:
		return true
	}
	return false
}

// callResult: if v is result #idx of a call (Extract, or the call itself for
// single results), returns the call and index.
func callResult(v ssa.Value) (*ssa.Call, int, bool) {
	switch x := v.(type) {
	case *ssa.Extract:
		if c, ok := x.Tuple.(*ssa.Call); ok {
			return c, x.Index, true
		}
	case *ssa.Call:
		return x, 0, true
	}
	return nil, 0, false
}

// derivesOnlyFrom reports whether every leaf of v is result #idx of a static
// call to one of the given functions; returns the calls.
func derivesOnlyFrom(v ssa.Value, idx int, fns ...*ssa.Function) ([]*ssa.Call, bool) {
	var calls []*ssa.Call
	for _, l := range leavesOf(v) {
		c, i, ok := callResult(l)
		if !ok || i != idx {
			return nil, false
		}
		sc := c.Common().StaticCallee()
		match := false
		for _, f := range fns {
			if f != nil && sc == f {
				match = true
			}
		}
		if !match {
			return nil, false
		}
		calls = append(calls, c)
	}
	return calls, len(calls) > 0
}

// ---- canonical failing conditions ----

// failCond is a branch whose one edge reaches only failure returns,
// normalised to "the function fails iff L op R" with op in {<,<=,==,!=}
// (or a boolean/call condition with op "true"/"false").
type failCond struct {
	Guards   []string // non-failing branch conditions under which this test is reached
	L, Op, R string
	At       ssa.Instruction
	X, Y     ssa.Value // operands in normalised order (nil for call conditions)
	Cond     ssa.Value
}

func (fc failCond) String() string {
	g := ""
	if len(fc.Guards) > 0 {
		g = " [when " + strings.Join(fc.Guards, " && ") + "]"
	}
	if fc.R == "" {
		return fc.Op + "(" + fc.L + ")" + g
	}
	return fc.L + " " + fc.Op + " " + fc.R + g
}

// Core is the condition without guards.
func (fc failCond) Core() string {
	if fc.R == "" {
		return fc.Op + "(" + fc.L + ")"
	}
	return fc.L + " " + fc.Op + " " + fc.R
}

// failsOnly: from block b no return that may report success is reachable
// without leaving through a loop back-edge... (plain reachability).
func failsOnly(f *ssa.Function, b *ssa.BasicBlock) bool {
	p, _ := findBypass(pathQuery{fn: f, startBlock: b, passes: func(ssa.Instruction) bool { return false }, exit: maySucceed})
	return p == nil
}

// failConditions extracts the normalised failing conditions of f. A branch
// is failing when exactly one successor reaches only failure returns
// (directly returns an error) and that successor is entered only from this branch.
func failConditions(w *World, f *ssa.Function) []failCond {
	var out []failCond
	ex := newExprCtx(w)
	for _, b := range f.Blocks {
		if len(b.Instrs) == 0 {
			continue
		}
		iff, ok := b.Instrs[len(b.Instrs)-1].(*ssa.If)
		if !ok {
			continue
		}
		f0 := directFailure(b.Succs[0])
		f1 := directFailure(b.Succs[1])
		if f0 == f1 {
			continue
		}
		failWhenTrue := f0
		cond := iff.Cond
		for {
			u, ok := cond.(*ssa.UnOp)
			if !ok || u.Op != token.NOT {
				break
			}
			cond = u.X
			failWhenTrue = !failWhenTrue
		}
		fc := failCond{At: iff, Cond: cond}
		if bo, ok := cond.(*ssa.BinOp); ok && isCmp(bo.Op) {
			op := bo.Op
			if !failWhenTrue {
				op = negateCmp(op)
			}
			x, y := bo.X, bo.Y
			if op == token.GTR || op == token.GEQ {
				x, y = y, x
				if op == token.GTR {
					op = token.LSS
				} else {
					op = token.LEQ
				}
			}
			// an unsigned value is `<= 0` exactly when it is `== 0` (and `< 1`): one spelling
			isUns := func(v ssa.Value) bool {
				b, ok := v.Type().Underlying().(*types.Basic)
				return ok && b.Info()&types.IsUnsigned != 0
			}
			if isUns(x) || isUns(y) {
				kx, xc := constInt(x)
				ky, yc := constInt(y)
				switch {
				case op == token.EQL && yc && ky == 0, op == token.LSS && yc && ky == 1:
					op = token.LEQ
					y = zeroLike(y)
				case op == token.EQL && xc && kx == 0:
					op = token.LEQ
					x, y = y, zeroLike(x)
				}
			}
			fc.L, fc.Op, fc.R, fc.X, fc.Y = ex.expr(x), op.String(), ex.expr(y), x, y
			if (op == token.EQL || op == token.NEQ) && fc.L > fc.R {
				fc.L, fc.R, fc.X, fc.Y = fc.R, fc.L, fc.Y, fc.X
			}
		} else {
			fc.L = ex.expr(cond)
			if failWhenTrue {
				fc.Op = "true"
			} else {
				fc.Op = "false"
			}
		}
		out = append(out, fc)
	}
	// guards: other (non-failing, non-loop-header) branches that decide whether the test is reached
	isFC := map[*ssa.BasicBlock]bool{}
	for _, fc := range out {
		isFC[fc.At.Block()] = true
	}
	for i := range out {
		fb := out[i].At.Block()
		for _, g := range f.Blocks {
			if g == fb || isFC[g] || len(g.Instrs) == 0 || !g.Dominates(fb) {
				continue
			}
			iff, ok := g.Instrs[len(g.Instrs)-1].(*ssa.If)
			if !ok {
				continue
			}
			d0 := edgeDominates(g, g.Succs[0], fb)
			d1 := edgeDominates(g, g.Succs[1], fb)
			if d0 == d1 {
				continue
			}
			if isLoopHeader(g) {
				continue
			}
			pol := ""
			if d1 {
				pol = "!"
			}
			out[i].Guards = append(out[i].Guards, pol+ex.expr(iff.Cond))
		}
	}
	return out
}

// isLoopCond: the block's branch decides between a loop body and the loop exit.
func isLoopCond(g *ssa.BasicBlock) bool {
	for _, s := range g.Succs {
		// a successor from which g is reachable again => loop body side
		seen := map[*ssa.BasicBlock]bool{}
		q := []*ssa.BasicBlock{s}
		for len(q) > 0 {
			x := q[0]
			q = q[1:]
			if x == g {
				return true
			}
			if seen[x] {
				continue
			}
			seen[x] = true
			q = append(q, x.Succs...)
		}
	}
	return false
}

// directFailure: the block (possibly through straight-line successors) ends
// in a failure return.
func directFailure(b *ssa.BasicBlock) bool {
	seen := map[*ssa.BasicBlock]bool{}
	for b != nil && !seen[b] {
		seen[b] = true
		if len(b.Instrs) == 0 {
			return false
		}
		switch t := b.Instrs[len(b.Instrs)-1].(type) {
		case *ssa.Return:
			return isFailureReturn(t)
		case *ssa.Jump:
			b = b.Succs[0]
		default:
			return false
		}
	}
	return false
}

func negateCmp(op token.Token) token.Token {
	switch op {
	case token.EQL:
		return token.NEQ
	case token.NEQ:
		return token.EQL
	case token.LSS:
		return token.GEQ
	case token.LEQ:
		return token.GTR
	case token.GTR:
		return token.LEQ
	case token.GEQ:
		return token.LSS
	}
	return op
}

// blockGuards lists the branch conditions (other than loop headers and
// error-return tests of preceding calls) under which block b is reached.
func blockGuards(w *World, b *ssa.BasicBlock) []string {
	var out []string
	ex := newExprCtx(w)
	for _, g := range b.Parent().Blocks {
		if g == b || len(g.Instrs) == 0 || !g.Dominates(b) || isLoopHeader(g) {
			continue
		}
		iff, ok := g.Instrs[len(g.Instrs)-1].(*ssa.If)
		if !ok {
			continue
		}
		d0 := edgeDominates(g, g.Succs[0], b)
		d1 := edgeDominates(g, g.Succs[1], b)
		if d0 == d1 {
			continue
		}
		// skip `if err != nil { return err }` style tests (the other edge is a direct failure)
		other := g.Succs[0]
		if d0 {
			other = g.Succs[1]
		}
		if directFailure(other) {
			continue
		}
		pol := ""
		if d1 {
			pol = "!"
		}
		out = append(out, pol+ex.expr(iff.Cond))
	}
	return out
}

var getterMemo = map[*ssa.Function][]string{}
var getterBusy = map[*ssa.Function]bool{}

// getterPath: f is a method with no parameters besides its receiver whose every return is the same field path
// of the receiver (a zero constant returned under a nil guard of the receiver aside); returns that path.
func getterPath(f *ssa.Function) []string {
	if p, ok := getterMemo[f]; ok {
		return p
	}
	if getterBusy[f] {
		return nil
	}
	getterBusy[f] = true
	defer delete(getterBusy, f)
	var res []string
	defer func() { getterMemo[f] = res }()
	if f.Signature.Recv() == nil || len(f.Params) != 1 || f.Signature.Results().Len() != 1 || len(f.Blocks) == 0 || len(f.Blocks) > 4 {
		return nil
	}
	recv := f.Params[0]
	var pathOf func(v ssa.Value, depth int) []string
	pathOf = func(v ssa.Value, depth int) []string {
		if depth > 6 {
			return nil
		}
		switch x := v.(type) {
		case *ssa.Parameter:
			if x == recv {
				return []string{}
			}
		case *ssa.UnOp:
			if x.Op == token.MUL {
				return pathOf(x.X, depth+1)
			}
		case *ssa.FieldAddr:
			if base := pathOf(x.X, depth+1); base != nil {
				_, name, _ := fieldAddrOf(x)
				return append(append([]string{}, base...), name)
			}
		case *ssa.Field:
			if base := pathOf(x.X, depth+1); base != nil {
				_, name, _ := fieldAddrOf(x)
				return append(append([]string{}, base...), name)
			}
		case *ssa.Call:
			sc := x.Common().StaticCallee()
			if sc != nil && len(x.Common().Args) == 1 {
				if sub := getterPath(sc); sub != nil {
					if base := pathOf(x.Common().Args[0], depth+1); base != nil {
						return append(append([]string{}, base...), sub...)
					}
				}
			}
		case *ssa.ChangeType:
			return pathOf(x.X, depth+1)
		}
		return nil
	}
	var path []string
	n := 0
	for _, rt := range returnsOf(f) {
		if len(rt.Results) != 1 {
			return nil
		}
		v := rt.Results[0]
		if k, ok := v.(*ssa.Const); ok && (k.Value == nil || k.Value.ExactString() == "0") {
			continue
		}
		p := pathOf(v, 0)
		if len(p) == 0 {
			return nil
		}
		if n > 0 && strings.Join(p, ".") != strings.Join(path, ".") {
			return nil
		}
		path = p
		n++
	}
	if n == 0 {
		return nil
	}
	res = path
	return res
}

// zeroLike: the constant 0 of v's type.
func zeroLike(v ssa.Value) ssa.Value {
	return ssa.NewConst(constant.MakeInt64(0), v.Type())
}

// localAllocOf: v is (a free variable bound to) a local variable's allocation.
func localAllocOf(v ssa.Value) *ssa.Alloc {
	for i := 0; i < 4; i++ {
		switch x := v.(type) {
		case *ssa.Alloc:
			return x
		case *ssa.FreeVar:
			v = bindingOf(x)
		default:
			return nil
		}
	}
	return nil
}

// addrsOf: the allocation itself and every free variable (in nested literals) bound to it.
func addrsOf(al *ssa.Alloc) []ssa.Value {
	out := []ssa.Value{al}
	seen := map[ssa.Value]bool{al: true}
	for i := 0; i < len(out); i++ {
		refs := out[i].Referrers()
		if refs == nil {
			continue
		}
		for _, r := range *refs {
			if mc, ok := r.(*ssa.MakeClosure); ok {
				fnc := mc.Fn.(*ssa.Function)
				for j, b := range mc.Bindings {
					if b == out[i] && j < len(fnc.FreeVars) && !seen[fnc.FreeVars[j]] {
						seen[fnc.FreeVars[j]] = true
						out = append(out, fnc.FreeVars[j])
					}
				}
			}
		}
	}
	return out
}

// fieldOrigins: the values that may be stored in field path `path` of the local struct variable al: direct stores
// to that field (in the function or in literals capturing the variable) and whole-struct copies from another local
// struct variable (followed). ok=false when the variable is written in a way that is not understood.
func fieldOrigins(al *ssa.Alloc, path []int, depth int) ([]ssa.Value, bool) {
	if depth > 4 || len(path) != 1 {
		return nil, false
	}
	var out []ssa.Value
	for _, a := range addrsOf(al) {
		refs := a.Referrers()
		if refs == nil {
			continue
		}
		for _, r := range *refs {
			switch x := r.(type) {
			case *ssa.FieldAddr:
				if x.Field != path[0] {
					continue
				}
				if rr := x.Referrers(); rr != nil {
					for _, u := range *rr {
						if st, ok := u.(*ssa.Store); ok && st.Addr == ssa.Value(x) {
							if k, isK := st.Val.(*ssa.Const); isK && k.Value == nil {
								continue
							}
							out = append(out, st.Val)
						}
					}
				}
			case *ssa.Store:
				if x.Addr != a {
					continue
				}
				// whole-struct store
				switch v := x.Val.(type) {
				case *ssa.Const:
					// zero value
				case *ssa.UnOp:
					src := localAllocOf(v.X)
					if v.Op != token.MUL || src == nil {
						return nil, false
					}
					if src == al {
						continue // self copy
					}
					vals, ok := fieldOrigins(src, path, depth+1)
					if !ok {
						return nil, false
					}
					out = append(out, vals...)
				default:
					return nil, false
				}
			}
		}
	}
	if len(out) == 0 {
		return nil, false
	}
	return out, true
}
